package model

import (
	"math"
	"sort"
	"sync"
)

// Reference for the perceptual hash: unscaled separable DCT-II in float64 computed from the
// definition c(v,u) = sum_y sum_x f(y,x) cos((2x+1)u*pi/2N) cos((2y+1)v*pi/2N), top-left K x K
// block in row-major (v, u) order. Written from the definition; shares nothing with the library.

var (
	cosMu  sync.Mutex
	cosTab = map[int][]float64{}
)

func cosTable(n, k int) []float64 {
	cosMu.Lock()
	defer cosMu.Unlock()
	key := n*1000 + k
	if t, ok := cosTab[key]; ok {
		return t
	}
	t := make([]float64, k*n)
	for u := 0; u < k; u++ {
		for x := 0; x < n; x++ {
			t[u*n+x] = math.Cos(float64(2*x+1) * float64(u) * math.Pi / float64(2*n))
		}
	}
	cosTab[key] = t
	return t
}

// LowFreqDCT returns the K x K low-frequency coefficients of the N x N array f and ||f||_1.
func LowFreqDCT(f []float64, n, k int) (coef []float64, l1 float64) {
	t := cosTable(n, k)
	// rows: g[y][u]
	g := make([]float64, n*k)
	for y := 0; y < n; y++ {
		row := f[y*n : y*n+n]
		for u := 0; u < k; u++ {
			s := 0.0
			tu := t[u*n : u*n+n]
			for x, v := range row {
				s += v * tu[x]
			}
			g[y*k+u] = s
		}
	}
	coef = make([]float64, k*k)
	for v := 0; v < k; v++ {
		tv := t[v*n : v*n+n]
		for u := 0; u < k; u++ {
			s := 0.0
			for y := 0; y < n; y++ {
				s += g[y*k+u] * tv[y]
			}
			coef[v*k+u] = s
		}
	}
	for _, v := range f {
		l1 += math.Abs(v)
	}
	return
}

// HashVerdict judges a hash (bits[i] for coefficient i in row-major (v,u) order) against the
// reference coefficients with margin tau. It returns "" or a description of the violated clause.
//
//	(a) every coefficient at or above the upper median by more than tau has its bit set;
//	(b) the set bits form an upper set up to tau: no cleared coefficient exceeds a set one by
//	    more than tau;
//	(c) the threshold lies at or just below the median: the implementation documents the mean of
//	    the upper median and one lower-half value, so no set coefficient lies more than tau below
//	    (min + upper median)/2.
func HashVerdict(coef []float64, bits []bool, tau float64) string {
	n := len(coef)
	s := append([]float64(nil), coef...)
	sort.Float64s(s)
	lower, upper := s[n/2-1], s[n/2]
	mid := (lower + upper) / 2
	floor := (s[0] + upper) / 2
	minSet, maxClear := math.Inf(1), math.Inf(-1)
	for i, c := range coef {
		if bits[i] {
			if c < minSet {
				minSet = c
			}
		} else if c > maxClear {
			maxClear = c
		}
	}
	for i, c := range coef {
		if c >= mid+tau && c >= upper && !bits[i] {
			return "upper-half coefficient cleared"
		}
		_ = i
	}
	if maxClear > minSet+tau {
		return "set bits are not an upper set of the coefficients"
	}
	if minSet < floor-tau {
		return "coefficient clearly below the threshold is set"
	}
	return ""
}
