// Package model holds the reference models (oracles' ground truth). They are written from the
// format specifications and use only the generator's logical records; nothing here imports
// constants, tables or helpers from the library under test.
package model

import (
	"fmt"
	"math"
	"strconv"
	"time"

	"verifsim/gen"
)

// Want is one expected observable value.
type Want struct {
	Exact string  // canonical text (when Tol == 0 and !IsF)
	IsF   bool    // numeric comparison
	F     float64 // expected number
	Tol   float64 // absolute tolerance
	Ulps  int     // or: tolerance in units in the last place of Bits-wide floats
	Bits  int     // 32 or 64
}

func q(s string) Want            { return Want{Exact: strconv.Quote(s)} }
func n(v interface{}) Want       { return Want{Exact: fmt.Sprint(v)} }
func f32(v float32) Want         { return Want{IsF: true, F: float64(v), Bits: 32, Ulps: 0} }
func f32u(v float32, u int) Want { return Want{IsF: true, F: float64(v), Bits: 32, Ulps: u} }

func ratF32(r gen.Rational) float32 { return float32(r.N) / float32(r.D) }

// ratWant: float32(n)/float32(d). With n,d < 2^24 both conversions are exact and the correctly
// rounded quotient is unique; above that 1 ulp is accepted.
func ratWant(r gen.Rational) Want {
	// one unit in the last place: a quotient computed in float64 and then rounded to float32 may
	// differ from the single-rounded float32 quotient by that much, and both are faithful
	return f32u(ratF32(r), 1)
}

func canonTime(t time.Time) string {
	name, off := t.Zone()
	if t.IsZero() && name == "UTC" && off == 0 {
		return "zero"
	}
	return fmt.Sprintf("%d.%09d/%s/%d", t.Unix(), t.Nanosecond(), name, off)
}

func parseOffset(s string) (secs int) {
	// "+HH:MM" | "-HH:MM" (Exif 2.31 OffsetTime)
	h, _ := strconv.Atoi(s[1:3])
	m, _ := strconv.Atoi(s[4:6])
	secs = h*3600 + m*60
	if s[0] == '-' {
		secs = -secs
	}
	return
}

// subSecMillis: SubSecTime holds the fractional digits of the second: "5" = .5 s, "05" = .05 s,
// "123456" = .123456 s. The result type has millisecond resolution (truncating).
func subSecMillis(s string) int {
	ms := 0
	mul := 100
	for i := 0; i < len(s) && i < 3; i++ {
		ms += int(s[i]-'0') * mul
		mul /= 10
	}
	return ms
}

func dateWant(d *gen.DateTime, sub *string, off *string) Want {
	if d == nil {
		return Want{Exact: "zero"}
	}
	t := time.Date(d.Y, time.Month(d.Mo), d.D, d.H, d.Mi, d.S, 0, time.UTC)
	if sub != nil {
		t = t.Add(time.Duration(subSecMillis(*sub)) * time.Millisecond)
	}
	if off != nil {
		secs := parseOffset(*off)
		loc := time.FixedZone(*off, secs)
		// wall clock reading d in zone off
		t = time.Date(d.Y, time.Month(d.Mo), d.D, d.H, d.Mi, d.S, 0, loc)
		if sub != nil {
			t = t.Add(time.Duration(subSecMillis(*sub)) * time.Millisecond)
		}
	}
	return Want{Exact: canonTime(t)}
}

func coordWant(c *[3]gen.Rational, ref *byte, neg byte) Want {
	if c == nil {
		return Want{IsF: true, F: 0, Bits: 64}
	}
	v := float64(c[0].N)/float64(c[0].D) + float64(c[1].N)/float64(c[1].D)/60 + float64(c[2].N)/float64(c[2].D)/3600
	if ref != nil && *ref == neg {
		v = -v
	}
	return Want{IsF: true, F: v, Bits: 64, Ulps: 4}
}

// ExpectExif maps the logical record to the observable surface of the decoded result
// (exported fields and accessors). Absent => zero value. Paths follow the harness's canonical
// naming ("Exif.<Field>", "Exif.<Accessor>()").
func ExpectExif(r *gen.Record) map[string]Want {
	w := map[string]Want{}
	str := func(path string, s *string) {
		if s != nil {
			w[path] = q(*s)
		} else {
			w[path] = q("")
		}
	}
	str("Exif.Make", r.Make)
	str("Exif.Model", r.Model)
	if r.KnownModel != 0 {
		w["Exif.CameraModel"] = Want{Exact: fmt.Sprint(r.KnownModel)}
	}
	str("Exif.Artist", r.Artist)
	str("Exif.Copyright", r.Copyright)
	str("Exif.Software", r.Software)
	str("Exif.ImageDescription", r.Description)
	str("Exif.LensMake", r.LensMake)
	str("Exif.LensModel", r.LensModel)
	str("Exif.LensSerial", r.LensSerial)
	switch {
	case r.CameraSerial != nil:
		w["Exif.CameraSerial"] = q(*r.CameraSerial)
	case r.BodySerial != nil:
		w["Exif.CameraSerial"] = q(*r.BodySerial)
	default:
		w["Exif.CameraSerial"] = q("")
	}
	dim := func(path string, a, b *uint32) {
		switch {
		case a != nil:
			w[path] = n(uint16(*a))
		case b != nil:
			w[path] = n(uint16(*b))
		default:
			w[path] = n(0)
		}
	}
	dim("Exif.ImageWidth", r.Width, r.PixelX)
	dim("Exif.ImageHeight", r.Height, r.PixelY)
	u16 := func(path string, v *uint16) {
		if v != nil {
			w[path] = n(*v)
		} else {
			w[path] = n(0)
		}
	}
	u16("Exif.Orientation", r.Orientation)
	u16("Exif.ExposureProgram", r.Program)
	u16("Exif.ExposureMode", r.Mode)
	u16("Exif.MeteringMode", r.Metering)
	u16("Exif.Flash", r.Flash)
	u32 := func(path string, v *uint32) {
		if v != nil {
			w[path] = n(*v)
		} else {
			w[path] = n(0)
		}
	}
	u32("Exif.ISOSpeed", r.ISO)
	u32("Exif.StripOffsets", r.StripOffsets)
	u32("Exif.StripByteCounts", r.StripByteCounts)
	if r.ExposureTime != nil {
		w["Exif.ExposureTime"] = ratWant(*r.ExposureTime)
	} else {
		w["Exif.ExposureTime"] = f32(0)
	}
	switch {
	case r.FNumber != nil:
		w["Exif.FNumber"] = ratWant(*r.FNumber)
	case r.ApertureValue != nil:
		// APEX: N = sqrt(2)^Av, reported to two decimals
		av := float64(r.ApertureValue.N) / float64(r.ApertureValue.D)
		w["Exif.FNumber"] = Want{IsF: true, F: math.Pow(math.Sqrt2, av), Tol: 0.0101, Bits: 32}
	default:
		w["Exif.FNumber"] = f32(0)
	}
	if r.Bias != nil {
		// the result type packs numerator (high byte) and denominator (low byte) in an int16
		w["Exif.ExposureBias"] = n(int16(r.Bias[0])<<8 + int16(r.Bias[1]))
	} else {
		w["Exif.ExposureBias"] = n(0)
	}
	switch {
	case r.FocalLength != nil:
		w["Exif.FocalLength"] = ratWant(*r.FocalLength)
	case r.FocalLengthInt != nil:
		w["Exif.FocalLength"] = f32(float32(*r.FocalLengthInt))
	default:
		w["Exif.FocalLength"] = f32(0)
	}
	if r.Focal35 != nil {
		w["Exif.FocalLengthIn35mmFormat"] = f32(float32(*r.Focal35))
	} else {
		w["Exif.FocalLengthIn35mmFormat"] = f32(0)
	}
	for i := 0; i < 4; i++ {
		a, b := uint32(0), uint32(0)
		if r.LensSpec != nil {
			a, b = r.LensSpec[i].N, r.LensSpec[i].D
		}
		w[fmt.Sprintf("Exif.LensInfo[%d]", 2*i)] = n(a)
		w[fmt.Sprintf("Exif.LensInfo[%d]", 2*i+1)] = n(b)
	}
	w["Exif.ModifyDate()"] = dateWant(r.ModifyDate, r.SubSec, r.Offset)
	w["Exif.DateTimeOriginal()"] = dateWant(r.DateOrig, r.SubSecOrig, r.OffsetOrig)
	w["Exif.CreateDate()"] = dateWant(r.DateDig, r.SubSecDig, r.OffsetDig)
	w["Exif.GPS.Latitude()"] = coordWant(r.Lat, r.LatRef, 'S')
	w["Exif.GPS.Longitude()"] = coordWant(r.Lon, r.LonRef, 'W')
	if r.Alt != nil {
		v := ratF32(*r.Alt)
		if r.AltRef != nil && *r.AltRef == 1 {
			v = -v
		}
		w["Exif.GPS.Altitude()"] = f32(v)
	} else {
		w["Exif.GPS.Altitude()"] = f32(0)
	}
	if r.GPSDate != nil {
		var y, mo, d int
		fmt.Sscanf(*r.GPSDate, "%d:%d:%d", &y, &mo, &d)
		t := time.Date(y, time.Month(mo), d, 0, 0, 0, 0, time.UTC)
		if r.GPSTime != nil {
			// hours, minutes and seconds are rationals: the time is their exact sum, reported in
			// whole seconds
			g := r.GPSTime
			den := uint64(g[0].D) * uint64(g[1].D) * uint64(g[2].D)
			num := uint64(g[0].N)*3600*uint64(g[1].D)*uint64(g[2].D) + uint64(g[1].N)*60*uint64(g[0].D)*uint64(g[2].D) + uint64(g[2].N)*uint64(g[0].D)*uint64(g[1].D)
			secs := num / den
			t = t.Add(time.Duration(secs) * time.Second)
		}
		w["Exif.GPS.Date()"] = Want{Exact: canonTime(t)}
	} else {
		w["Exif.GPS.Date()"] = Want{Exact: "zero"}
	}
	return w
}

// ulpDiff returns the distance in units in the last place between two floats of the given width.
func ulpDiff(a, b float64, bits int) float64 {
	if a == b {
		return 0
	}
	if bits == 32 {
		ia, ib := int64(math.Float32bits(float32(a))), int64(math.Float32bits(float32(b)))
		if (ia < 0) != (ib < 0) || float32(a) < 0 != (float32(b) < 0) {
			return math.Inf(1)
		}
		return math.Abs(float64(ia - ib))
	}
	ia, ib := int64(math.Float64bits(a)), int64(math.Float64bits(b))
	if (a < 0) != (b < 0) {
		return math.Inf(1)
	}
	return math.Abs(float64(ia - ib))
}

// Match compares a canonical library value (as produced by the harness: %x float bits for
// floats, decimal integers, quoted strings, canonical times) with a Want.
func (w Want) Match(got string) bool {
	if !w.IsF {
		return got == w.Exact
	}
	if got == "NaN" {
		return math.IsNaN(w.F)
	}
	bitsv, err := strconv.ParseUint(got, 16, 64)
	if err != nil {
		return false
	}
	var g float64
	if w.Bits == 32 {
		g = float64(math.Float32frombits(uint32(bitsv)))
	} else {
		g = math.Float64frombits(bitsv)
	}
	if w.Tol > 0 {
		return math.Abs(g-w.F) <= w.Tol
	}
	return ulpDiff(g, w.F, w.Bits) <= float64(w.Ulps)
}

func (w Want) String() string {
	if !w.IsF {
		return w.Exact
	}
	if w.Bits == 32 {
		return fmt.Sprintf("%x (%g, tol=%g ulps=%d)", math.Float32bits(float32(w.F)), float32(w.F), w.Tol, w.Ulps)
	}
	return fmt.Sprintf("%x (%g, tol=%g ulps=%d)", math.Float64bits(w.F), w.F, w.Tol, w.Ulps)
}
