package world

import (
	"runtime"
	"sync"
)

// Sched is the task scheduler of a multi-task world: caller goroutines are real goroutines, but
// exactly one runs at a time. A task parks at every device event and actor entry/exit; the
// yielding task takes the next decision from a pre-drawn schedule and hands over.
//
// The hand-over is a plain (non-atomic) word spun on with runtime.Gosched() inside //go:norace
// functions, on purpose: channels, mutexes and atomics are annotated for the race detector and
// would put a happens-before edge between every pair of tasks, making the detector blind. With
// the un-annotated baton the detector sees the tasks as unordered except for the synchronisation
// the *library* performs, so one serialised, exactly replayable schedule yields the data-race
// verdict a truly parallel run could only produce by luck. Everything the scheduler itself
// shares between tasks is touched only inside //go:norace functions.
type Sched struct {
	n       int
	turn    int32 // id of the task allowed to run; -1: none (all finished)
	done    []bool
	switchP []uint8  // per decision: 1 = switch away from the running task
	target  []uint16 // per decision: which other runnable task (index among runnable ones)
	pos     int

	Events   int64  // yield points reached
	Switches int64  // task switches performed
	Digest   uint64 // folds the sequence of running task ids (distinct interleavings measure)
	Overlap  int64  // switches made while the task switched away from was inside an operation
	wg       sync.WaitGroup
}

// NewSched prepares a schedule for n tasks. switchP/target are the pre-drawn decisions (from the
// sched lane); once they are used up the running task keeps running until it finishes.
func NewSched(n int, switchP []uint8, target []uint16) *Sched {
	return &Sched{n: n, turn: -2, done: make([]bool, n), switchP: switchP, target: target, Digest: 0xcbf29ce484222325}
}

//go:norace
func (s *Sched) fold(id int) {
	s.Digest ^= uint64(id + 1)
	s.Digest *= 0x100000001b3
}

// choose returns the task that runs next; cur is the running task (-1: none).
//
//go:norace
func (s *Sched) choose(cur int) int {
	runnable := 0
	for i := 0; i < s.n; i++ {
		if !s.done[i] {
			runnable++
		}
	}
	if runnable == 0 {
		return -1
	}
	sw, tg := uint8(0), uint16(0)
	if s.pos < len(s.switchP) {
		sw, tg = s.switchP[s.pos], s.target[s.pos]
		s.pos++
	}
	if cur >= 0 && !s.done[cur] {
		if sw == 0 || runnable == 1 {
			return cur
		}
		// the tg-th runnable task other than cur
		k := int(tg) % (runnable - 1)
		for i := 0; i < s.n; i++ {
			if s.done[i] || i == cur {
				continue
			}
			if k == 0 {
				return i
			}
			k--
		}
		return cur
	}
	k := int(tg) % runnable
	for i := 0; i < s.n; i++ {
		if s.done[i] {
			continue
		}
		if k == 0 {
			return i
		}
		k--
	}
	return -1
}

//go:norace
func (s *Sched) park(id int) {
	for s.turn != int32(id) {
		runtime.Gosched()
	}
}

// Yield is a scheduling point of task id.
//
//go:norace
func (s *Sched) Yield(id int) {
	s.Events++
	next := s.choose(id)
	if next != id && next >= 0 {
		s.Switches++
		s.Overlap++
		s.fold(next)
		s.turn = int32(next)
		s.park(id)
	}
}

//go:norace
func (s *Sched) finish(id int) {
	s.done[id] = true
	next := s.choose(-1)
	if next >= 0 {
		s.fold(next)
	}
	s.turn = int32(next)
}

//go:norace
func (s *Sched) start() {
	first := s.choose(-1)
	s.fold(first)
	s.turn = int32(first)
}

// Run executes the task bodies under the schedule and returns when all have finished. The only
// annotated synchronisation is goroutine creation (main -> task) and the final WaitGroup
// (task -> main).
func (s *Sched) Run(body func(id int)) {
	s.wg.Add(s.n)
	for i := 0; i < s.n; i++ {
		id := i
		go func() {
			defer s.wg.Done()
			s.park(id)
			defer s.finish(id)
			body(id)
		}()
	}
	s.start()
	s.wg.Wait()
}
