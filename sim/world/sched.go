package world

import (
	"os"
	"runtime"
	"sync"
)

// Sched is the task scheduler of a multi-task world: caller goroutines are real goroutines, but
// exactly one runs at a time. A task parks at every device event and actor entry/exit; the
// yielding task takes the next decision from a pre-drawn schedule and hands over.
//
// The hand-over is a plain (non-atomic) word spun on with runtime.Gosched() inside //go:norace
// functions, on purpose: channels, mutexes and atomics are annotated for the race detector and
// would put a happens-before edge between every pair of tasks, making the detector blind. With
// the un-annotated baton the detector sees the tasks as unordered except for the synchronisation
// the *library* performs, so one serialised, exactly replayable schedule yields the data-race
// verdict a truly parallel run could only produce by luck. Everything the scheduler itself
// shares between tasks is touched only inside //go:norace functions.
type Sched struct {
	n       int
	turn    int32 // id of the task allowed to run; -1: none (all finished)
	done    []bool
	switchP []uint8  // per decision: 1 = switch away from the running task
	target  []uint16 // per decision: which other runnable task (index among runnable ones)
	pos     int

	Events   int64  // yield points reached
	Switches int64  // task switches performed
	Digest   uint64 // folds the sequence of running task ids (distinct interleavings measure)
	Overlap  int64  // switches made while the task switched away from was inside an operation
	wg       sync.WaitGroup

	// scheduling points inside the library (instrumented build): the running task is identified by
	// its goroutine id, because the library's own helper goroutines reach the same call sites
	goids      []uint64
	SyncEvents int64 // synchronisation operations reached by task goroutines
	LockWaits  int64 // forced hand-overs because a lock was held by a parked task

	// Free: no serialisation at all - the tasks run as the Go scheduler lets them (used only to tell
	// a stall of the simulator from a stall of the library, see simctl stallIsArtefact)
	Free bool
}

// NewSched prepares a schedule for n tasks. switchP/target are the pre-drawn decisions (from the
// sched lane); once they are used up the running task keeps running until it finishes.
func NewSched(n int, switchP []uint8, target []uint16) *Sched {
	return &Sched{Free: os.Getenv("VERIF_FREERUN") == "1", n: n, turn: -2, done: make([]bool, n), goids: make([]uint64, n), switchP: switchP, target: target, Digest: 0xcbf29ce484222325}
}

//go:norace
func (s *Sched) fold(id int) {
	s.Digest ^= uint64(id + 1)
	s.Digest *= 0x100000001b3
}

// choose returns the task that runs next; cur is the running task (-1: none).
//
//go:norace
func (s *Sched) choose(cur int) int {
	runnable := 0
	for i := 0; i < s.n; i++ {
		if !s.done[i] {
			runnable++
		}
	}
	if runnable == 0 {
		return -1
	}
	sw, tg := uint8(0), uint16(0)
	if s.pos < len(s.switchP) {
		sw, tg = s.switchP[s.pos], s.target[s.pos]
		s.pos++
	}
	if cur >= 0 && !s.done[cur] {
		if sw == 0 || runnable == 1 {
			return cur
		}
		// the tg-th runnable task other than cur
		k := int(tg) % (runnable - 1)
		for i := 0; i < s.n; i++ {
			if s.done[i] || i == cur {
				continue
			}
			if k == 0 {
				return i
			}
			k--
		}
		return cur
	}
	k := int(tg) % runnable
	for i := 0; i < s.n; i++ {
		if s.done[i] {
			continue
		}
		if k == 0 {
			return i
		}
		k--
	}
	return -1
}

//go:norace
func (s *Sched) park(id int) {
	if s.Free {
		return
	}
	for s.turn != int32(id) {
		runtime.Gosched()
	}
}

// Yield is a scheduling point of task id.
//
//go:norace
func (s *Sched) Yield(id int) {
	if s.Free {
		return
	}
	s.Events++
	next := s.choose(id)
	if next != id && next >= 0 {
		s.Switches++
		s.Overlap++
		s.fold(next)
		s.turn = int32(next)
		s.park(id)
	}
}

//go:norace
func (s *Sched) finish(id int) {
	if s.Free {
		return
	}
	s.done[id] = true
	next := s.choose(-1)
	if next >= 0 {
		s.fold(next)
	}
	s.turn = int32(next)
}

//go:norace
func (s *Sched) start() {
	first := s.choose(-1)
	s.fold(first)
	s.turn = int32(first)
}

// Run executes the task bodies under the schedule and returns when all have finished. The only
// annotated synchronisation is goroutine creation (main -> task) and the final WaitGroup
// (task -> main).
func (s *Sched) Run(body func(id int)) {
	s.wg.Add(s.n)
	for i := 0; i < s.n; i++ {
		id := i
		go func() {
			defer s.wg.Done()
			s.setGoid(id)
			s.park(id)
			defer s.finish(id)
			body(id)
		}()
	}
	s.start()
	s.wg.Wait()
}

// goid returns the id of the calling goroutine (parsed from the first line of its stack trace:
// "goroutine 123 [running]:").
func goid() uint64 {
	var b [40]byte
	n := runtime.Stack(b[:], false)
	var id uint64
	for i := len("goroutine "); i < n && b[i] >= '0' && b[i] <= '9'; i++ {
		id = id*10 + uint64(b[i]-'0')
	}
	return id
}

//go:norace
func (s *Sched) setGoid(id int) { s.goids[id] = goid() }

// current returns the id of the running task if the caller is that task's goroutine, else -1
// (a helper goroutine started by the library, or code outside Run).
//
//go:norace
func (s *Sched) current() int {
	id := int(s.turn)
	if id < 0 || id >= s.n || s.goids[id] != goid() {
		return -1
	}
	return id
}

// SyncYield is a scheduling point reached from inside the library (instrumented build).
//
//go:norace
func (s *Sched) SyncYield(site string) {
	if s.Free {
		return
	}
	id := s.current()
	if id < 0 {
		return
	}
	s.SyncEvents++
	s.Yield(id)
}

// LockBlocked is called when the running task found a lock taken: whoever holds it is parked,
// so the baton goes to the next runnable task (round robin, no decision consumed). When no other
// task is runnable the lock can never be released: the caller keeps spinning, which is the
// deadlock it would be outside the simulator, and the watchdog reports it.
//
//go:norace
func (s *Sched) LockBlocked(site string) {
	if s.Free {
		runtime.Gosched()
		return
	}
	id := s.current()
	if id < 0 {
		runtime.Gosched()
		return
	}
	for k := 1; k < s.n; k++ {
		next := (id + k) % s.n
		if !s.done[next] {
			s.LockWaits++
			s.Switches++
			s.fold(next)
			s.turn = int32(next)
			s.park(id)
			return
		}
	}
	runtime.Gosched()
}
