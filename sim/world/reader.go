// Package world holds the simulated environment: the device behind every reader, the log sink,
// callback actors, the image actor and the task scheduler. It does not import the library.
package world

import (
	"errors"
	"io"

	"verifsim/core"
)

// ErrSimIO is the distinguishable I/O error injected by the device.
var ErrSimIO = errors.New("sim: input/output error")

// ErrSeekPipe is returned by Seek when the stream is configured as non-seekable.
var ErrSeekPipe = errors.New("sim: illegal seek")

// BudgetExceeded is the sentinel panic value raised when a run exceeds its device tick budget
// (a loop *through* the device that makes no progress). It is an error so that library-side
// recover()s that assert state.(error) do not turn it into a second panic.
type BudgetExceeded struct{}

func (BudgetExceeded) Error() string { return "sim: device tick budget exceeded" }

// Device is the per-run event source shared by all handles: global event sequence numbers, tick
// budget, the scheduler's yield hook.
type Device struct {
	Seq      int64 // global device event sequence number (= simulated time, in ticks)
	Budget   int64 // 0 = unlimited
	Exceeded bool
	Yield    func(kind string) // scheduling point; nil in single-task worlds
	Log      *core.Digest      // optional: folds every device event
}

func (d *Device) tick(kind string) {
	if d.Yield != nil {
		d.Yield(kind)
	}
	d.Seq++
	if d.Budget > 0 && d.Seq > d.Budget {
		d.Exceeded = true
		panic(BudgetExceeded{})
	}
}

// Event is a device event raised by a simulated component other than a reader (the generic
// image actor's At).
func (d *Device) Event(kind string) { d.tick(kind) }

// Fault kinds at the end point.
const (
	EndEOF  = 0 // stream ends cleanly at End (the file is data[:End])
	EndUEOF = 1 // Read fails at End with io.ErrUnexpectedEOF
	EndEIO  = 2 // Read fails at End with ErrSimIO
)

// Piece-size policies.
const (
	PieceWhole   = 0
	PieceConst   = 1 // constant size Const
	PieceRandom  = 2 // per-call draw from Lane in 1..len(p)
	PieceDribble = 3 // Const-byte pieces for the first DribbleN calls, then whole
	PieceAligned = 4 // piece ends at the next boundary in Bounds (else whole)
)

// SimReader is one open handle on an in-memory file; io.Reader, io.Seeker, io.ReaderAt.
// Nothing here allocates, logs, reads a clock or draws from a shared PRNG on the hot path.
type SimReader struct {
	Dev       *Device
	Data      []byte
	End       int  // stream ends/fails at this offset (<= len(Data))
	Kind      int  // EndEOF / EndUEOF / EndEIO
	Transient bool // the failure happens once; afterwards the rest of Data is delivered
	DataEOF   bool // final piece is returned together with io.EOF
	SeekFail  bool
	NoYield   bool

	Piece    int
	Const    int
	DribbleN int
	Bounds   []int // sorted offsets for PieceAligned
	Lane     *core.Lane

	// mid-run corruption: after device event FlipAt (handle-local call count), Data[FlipOff]=FlipVal
	FlipAt  int64
	FlipOff int
	FlipVal byte
	flipped bool

	pos       int64
	transDone bool

	// meters
	Calls      int64
	ReqBytes   int64 // sum len(p) over all Read/ReadAt
	ProdReq    int64 // sum len(p) over calls that obtained >= 1 byte (C02's M1)
	Delivered  int64
	EOFPolls   int64 // calls that obtained 0 bytes
	Seeks      int64
	SeekBack   int64
	HighWater  int64 // max offset requested (pos+len(p)), capped at len(Data)
	HighDeliv  int64 // max offset delivered
	ShortReads int64 // Read returned less than requested while more was available
	Fired      bool  // the end/fail point changed what the library observed
	FirstOff   int64 // offset of first byte delivered (-1 none)
}

func NewSimReader(dev *Device, data []byte) *SimReader {
	return &SimReader{Dev: dev, Data: data, End: len(data), FirstOff: -1}
}

func (r *SimReader) event(kind string) {
	r.Calls++
	if r.FlipAt > 0 && !r.flipped && r.Calls > r.FlipAt {
		r.flipped = true
		if r.FlipOff >= 0 && r.FlipOff < len(r.Data) {
			r.Data[r.FlipOff] = r.FlipVal
		}
	}
	if r.NoYield {
		yield := r.Dev.Yield
		r.Dev.Yield = nil
		r.Dev.tick(kind)
		r.Dev.Yield = yield
		return
	}
	r.Dev.tick(kind)
}

func (r *SimReader) endErr() error {
	switch r.Kind {
	case EndUEOF:
		return io.ErrUnexpectedEOF
	case EndEIO:
		return ErrSimIO
	}
	return io.EOF
}

func (r *SimReader) limit() int {
	if r.Transient && r.transDone {
		return len(r.Data)
	}
	return r.End
}

func (r *SimReader) pieceSize(want, avail int) int {
	n := want
	if n > avail {
		n = avail
	}
	if n <= 1 {
		return n
	}
	switch r.Piece {
	case PieceConst:
		if r.Const > 0 && r.Const < n {
			n = r.Const
		}
	case PieceRandom:
		if r.Lane != nil {
			// 0 => whole (simplest)
			v := r.Lane.Intn(n)
			if v > 0 {
				n = v
			}
		}
	case PieceDribble:
		if r.Calls <= int64(r.DribbleN) && r.Const > 0 && r.Const < n {
			n = r.Const
		}
	case PieceAligned:
		p := int(r.pos)
		for _, b := range r.Bounds {
			if b > p {
				if b-p < n {
					n = b - p
				}
				break
			}
		}
	}
	return n
}

// Read implements io.Reader. (0, nil) is never produced for len(p) > 0.
func (r *SimReader) Read(p []byte) (int, error) {
	r.event("read")
	r.ReqBytes += int64(len(p))
	if hw := r.pos + int64(len(p)); hw > r.HighWater {
		r.HighWater = hw
		if r.HighWater > int64(len(r.Data)) {
			r.HighWater = int64(len(r.Data))
		}
	}
	if len(p) == 0 {
		return 0, nil
	}
	lim := r.limit()
	avail := lim - int(r.pos)
	if avail <= 0 {
		r.EOFPolls++
		if lim < len(r.Data) || r.Kind != EndEOF {
			r.Fired = true
		}
		if r.Transient && !r.transDone && r.Kind != EndEOF {
			r.transDone = true
			return 0, r.endErr()
		}
		if r.Transient && r.transDone {
			return 0, io.EOF
		}
		return 0, r.endErr()
	}
	n := r.pieceSize(len(p), avail)
	copy(p, r.Data[r.pos:int(r.pos)+n])
	if r.FirstOff < 0 {
		r.FirstOff = r.pos
	}
	if n < len(p) && n < avail {
		r.ShortReads++
	}
	if n < len(p) && n == avail && lim < len(r.Data) {
		r.Fired = true
	}
	r.pos += int64(n)
	r.Delivered += int64(n)
	r.ProdReq += int64(len(p))
	if r.pos > r.HighDeliv {
		r.HighDeliv = r.pos
	}
	if r.DataEOF && int(r.pos) == lim && r.Kind == EndEOF && !(r.Transient && !r.transDone) {
		return n, io.EOF
	}
	return n, nil
}

// ReadAt implements io.ReaderAt (always whole delivery, as the contract demands).
func (r *SimReader) ReadAt(p []byte, off int64) (int, error) {
	r.event("readat")
	r.ReqBytes += int64(len(p))
	if hw := off + int64(len(p)); hw > r.HighWater {
		r.HighWater = hw
		if r.HighWater > int64(len(r.Data)) {
			r.HighWater = int64(len(r.Data))
		}
	}
	if off < 0 {
		return 0, errors.New("sim: negative offset")
	}
	lim := r.limit()
	if off >= int64(lim) {
		r.EOFPolls++
		if lim < len(r.Data) || r.Kind != EndEOF {
			r.Fired = true
		}
		return 0, r.endErr()
	}
	n := copy(p, r.Data[off:lim])
	r.Delivered += int64(n)
	if n > 0 {
		r.ProdReq += int64(len(p))
	}
	if n < len(p) {
		if lim < len(r.Data) || r.Kind != EndEOF {
			r.Fired = true
		}
		return n, r.endErr()
	}
	if r.DataEOF && off+int64(n) == int64(lim) && lim == len(r.Data) && r.Kind == EndEOF {
		// io.ReaderAt: "If the n = len(p) bytes returned by ReadAt are at the end of the input
		// source, ReadAt may return either err == EOF or err == nil."
		return n, io.EOF
	}
	return n, nil
}

// Seek implements io.Seeker. Seeking past the end is legal (as for a file).
func (r *SimReader) Seek(offset int64, whence int) (int64, error) {
	r.event("seek")
	r.Seeks++
	if r.SeekFail {
		r.Fired = true
		return 0, ErrSeekPipe
	}
	var abs int64
	switch whence {
	case io.SeekStart:
		abs = offset
	case io.SeekCurrent:
		abs = r.pos + offset
	case io.SeekEnd:
		abs = int64(r.limit()) + offset
	default:
		return 0, errors.New("sim: invalid whence")
	}
	if abs < 0 {
		return 0, errors.New("sim: negative position")
	}
	if abs < r.pos {
		r.SeekBack++
	}
	r.pos = abs
	return abs, nil
}

// Pos is the device offset (harness-side observation; not an event).
func (r *SimReader) Pos() int64 { return r.pos }

// OnlyReader hides Seek/ReadAt so that a plain io.Reader reaches the library.
type OnlyReader struct{ R *SimReader }

func (o OnlyReader) Read(p []byte) (int, error) { return o.R.Read(p) }
