package world

import (
	"io"

	"verifsim/core"
)

// Actor modes: how much of the handed reader a callback consumes.
const (
	ActExact   = 0 // exactly the declared length (to EOF when the length is unknown)
	ActNothing = 1
	ActPrefix  = 2 // a lane-chosen prefix
	ActToEOF   = 3 // until EOF or error
	ActOver    = 4 // to EOF, then keeps trying to read more
)

// Actor piece policies (size of the buffer passed to each Read).
const (
	ActPieceBig    = 0 // up to 4096
	ActPieceOne    = 1
	ActPieceFixed  = 2 // 7 bytes
	ActPieceRandom = 3 // lane-chosen 1..512
	ActPieceExact  = 4 // exactly what is still wanted (one Read if the reader cooperates)
)

type peekDiscarder interface {
	Peek(n int) ([]byte, error)
	Discard(n int) (int, error)
}

// Invocation records what one callback invocation observed.
type Invocation struct {
	Header   string // canonical header text (filled by the harness)
	Declared int
	Got      []byte
	Err      string // last error the handed reader returned ("" none)
	EOF      bool   // reader reported io.EOF
	Extra    []byte // bytes obtained after EOF (over-read)
}

// Actor is a simulated user callback. It never panics and never violates the reader contract,
// so a crash is always the library's.
type Actor struct {
	Name    string
	Dev     *Device
	R       *core.SplitMix // per-invocation choices (prefix length, random piece sizes), from one lane draw
	Seed    uint64         // the seed R was made from
	Mode    int
	Piece   int
	UsePeek bool
	// UseByte: when the handed reader offers io.ByteReader (as decoders such as encoding/xml look
	// for), consume through ReadByte, and keep asking a few times at the end
	UseByte bool
	RetErr  bool // return an error to the library after consuming
	// NegDiscard > 0: before leaving, a Peek/Discard consumer steps "back" with Discard(-NegDiscard),
	// as a forward-only value reader does when two values of a directory overlap (the library's own
	// Exif reader does exactly this). bufio.Reader answers ErrNegativeCount; whatever view the
	// library hands out must not move, and must not change what it believes to be left.
	NegDiscard int
	Inv        []*Invocation
	MaxRead    int // safety cap per invocation
	// Probe, when set, is called at entry ("enter") and exit ("exit") of every invocation with
	// the invocation index (harness-side observation of the stream position; not an event).
	Probe func(phase string, inv int)
}

// ErrActor is the error an actor returns when RetErr is set.
type actorError struct{}

func (actorError) Error() string { return "sim: actor error" }

var ErrActor error = actorError{}

func (a *Actor) bufSize(want int) int {
	n := 4096
	switch a.Piece {
	case ActPieceOne:
		n = 1
	case ActPieceFixed:
		n = 7
	case ActPieceRandom:
		n = 1 + a.R.Intn(512)
	case ActPieceExact:
		if want > 0 {
			n = want
		}
		// the declared length comes from the file (a corrupted size field can declare gigabytes);
		// the actor is harness code and must not be the one that runs out of memory
		if n > 1<<16 {
			n = 1 << 16
		}
	}
	// never ask for more than is still wanted: what an actor obtains is then a function of the
	// byte stream it is handed, not of how the stream happens to be cut into pieces
	if want >= 0 && n > want {
		n = want
	}
	if n < 1 {
		n = 1
	}
	return n
}

// Run consumes r according to the actor's mode. declared < 0 means unknown.
func (a *Actor) Run(r io.Reader, header string, declared int) error {
	if a.Dev != nil && a.Dev.Yield != nil {
		a.Dev.Yield("actor-enter")
	}
	inv := &Invocation{Header: header, Declared: declared}
	a.Inv = append(a.Inv, inv)
	if a.Probe != nil {
		a.Probe("enter", len(a.Inv)-1)
		defer a.Probe("exit", len(a.Inv)-1)
	}
	max := a.MaxRead
	if max == 0 {
		max = 1 << 20
	}
	want := -1 // -1: until EOF
	switch a.Mode {
	case ActExact:
		want = declared
	case ActNothing:
		want = 0
	case ActPrefix:
		// how much an invocation wants is a function of (actor seed, invocation index): the
		// generator a.R has been advanced by the piece sizes of earlier invocations, whose number
		// depends on how the stream was delivered (first invocation: nothing consumed yet)
		ch := a.R
		if len(a.Inv) > 1 {
			ch = core.NewSplitMix(a.Seed ^ uint64(len(a.Inv))*0x9e3779b97f4a7c15)
		}
		if declared >= 0 {
			want = ch.Intn(declared + 1)
		} else {
			want = ch.Intn(4096)
		}
	case ActToEOF, ActOver:
		want = -1
	}
	pd, canPeek := r.(peekDiscarder)
	buf := make([]byte, 4096)
	if br, ok := r.(io.ByteReader); ok && a.UseByte {
		for (want < 0 || len(inv.Got) < want) && len(inv.Got) < max {
			b, err := br.ReadByte()
			if err != nil {
				inv.Err = err.Error()
				inv.EOF = err == io.EOF
				// a byte-wise consumer typically polls the end more than once
				for i := 0; i < 3; i++ {
					if b2, err2 := br.ReadByte(); err2 == nil {
						inv.Extra = append(inv.Extra, b2)
					}
				}
				break
			}
			inv.Got = append(inv.Got, b)
		}
		want = len(inv.Got) // nothing more to do in the generic loop
	}
	for (want < 0 || len(inv.Got) < want) && len(inv.Got) < max {
		rem := -1
		if want >= 0 {
			rem = want - len(inv.Got)
		}
		n := a.bufSize(rem)
		if n > len(buf) {
			buf = make([]byte, n)
		}
		if a.UsePeek && canPeek {
			if n > 4096 {
				n = 4096
			}
			b, err := pd.Peek(n)
			// a view that refuses to peek beyond its end (all or nothing) is asked again for less:
			// a Peek/Discard consumer of such a view learns its extent this way
			for err != nil && len(b) == 0 && n > 1 {
				n /= 2
				b, err = pd.Peek(n)
			}
			if len(b) > 0 {
				inv.Got = append(inv.Got, b...)
				if _, derr := pd.Discard(len(b)); derr != nil {
					inv.Err = derr.Error()
					break
				}
			}
			if err != nil {
				if want >= 0 && len(inv.Got) >= want {
					break
				}
				inv.Err = err.Error()
				inv.EOF = err == io.EOF
				break
			}
			continue
		}
		m, err := r.Read(buf[:n])
		if m > 0 {
			inv.Got = append(inv.Got, buf[:m]...)
		}
		if err != nil {
			if want >= 0 && len(inv.Got) >= want {
				break // everything wanted was obtained; an error delivered with the last piece is not observed
			}
			inv.Err = err.Error()
			inv.EOF = err == io.EOF
			break
		}
		if m == 0 {
			// a reader that returns (0,nil) forever would hang the actor; count and stop
			inv.Err = "zero-read"
			break
		}
	}
	if a.Mode == ActOver {
		// keeps asking until 48 more bytes arrived or the reader refuses (counted in bytes, not in
		// calls, so that the observation does not depend on piece sizes)
		for tries := 0; len(inv.Extra) < 48 && tries < 64; tries++ {
			m, err := r.Read(buf[:48-len(inv.Extra)])
			if m > 0 {
				inv.Extra = append(inv.Extra, buf[:m]...)
			}
			if err != nil || m == 0 {
				break
			}
		}
	}
	if a.NegDiscard > 0 && canPeek {
		pd.Discard(-a.NegDiscard)
	}
	if a.Dev != nil && a.Dev.Yield != nil {
		a.Dev.Yield("actor-exit")
	}
	if a.RetErr {
		return ErrActor
	}
	return nil
}
