package world

import (
	"errors"
	"io"
)

// Sink modes.
const (
	SinkOK    = 0 // accepts everything
	SinkError = 1 // every Write fails
	SinkShort = 2 // accepts a prefix and reports io.ErrShortWrite
	SinkFlaky = 3 // fails every other Write
)

var SinkNames = []string{"ok", "error", "short-write", "flaky"}

// ErrSink is the error a failing log sink returns.
var ErrSink = errors.New("sim: log sink write error")

// SimSink is the io.Writer handed to the library's SetLogger. Each Write is a device event.
type SimSink struct {
	Dev    *Device
	Mode   int
	Writes int64
	Bytes  int64
	Failed int64
	Hash   uint64
}

func (s *SimSink) Write(p []byte) (int, error) {
	if s.Dev != nil {
		s.Dev.tick("sink")
	}
	s.Writes++
	fold := func(b []byte) {
		h := s.Hash
		if h == 0 {
			h = 0xcbf29ce484222325
		}
		for _, c := range b {
			h ^= uint64(c)
			h *= 0x100000001b3
		}
		s.Hash = h
		s.Bytes += int64(len(b))
	}
	switch s.Mode {
	case SinkError:
		s.Failed++
		return 0, ErrSink
	case SinkShort:
		n := len(p) / 2
		fold(p[:n])
		s.Failed++
		return n, io.ErrShortWrite
	case SinkFlaky:
		if s.Writes%2 == 0 {
			s.Failed++
			return 0, ErrSink
		}
	}
	fold(p)
	return len(p), nil
}
