// Package yieldinst makes a scratch copy of the repository in which every synchronisation
// operation of the library is a scheduling point of the simulator.
//
// The copy is never written back: it lives under the check's build directory and is rebuilt from
// the repository's working tree on every check. Three rewrites are applied to the non-test,
// non-hook Go files (syntactically, with the standard library's go/ast only):
//
//  1. before every statement that performs a call on a synchronisation primitive - a method named
//     Lock, Unlock, RLock, RUnlock, Get, Put, Load, Store, Swap, CompareAndSwap, Add, Done or any
//     function of package atomic - a call verifyield.Y(site) is inserted. Matching by name
//     over-approximates (a method called Get on some other type gets a yield point too); a
//     superfluous scheduling point changes nothing but the number of interleavings.
//  2. a statement X.Lock() / X.RLock() becomes verifyield.Acquire(X.TryLock, X.Lock, site) /
//     verifyield.Acquire(X.TryRLock, X.RLock, site): under the simulator a task never blocks on a
//     mutex while it holds the scheduler's baton - it tries, and hands the baton on when the lock
//     is taken. Without a scheduler the original blocking call is made.
//  3. X.Do(f) becomes verifyield.Once(X.Do, f): inside a once-function no scheduling point is
//     taken (another task entering the same Once would block on it with the baton in hand).
//
// If the rewritten copy does not build (a method of one of those names on a type that has no
// TryLock, say) the caller falls back to the unmodified tree and says so.
package yieldinst

import (
	"bytes"
	"fmt"
	"go/ast"
	"go/parser"
	"go/printer"
	"go/token"
	"io"
	"os"
	"path/filepath"
	"strings"
)

const yieldPkg = `// Package verifyield exists only in the instrumented scratch copy of the repository that the
// C05 check builds: the library's synchronisation operations call it, and the simulator's
// scheduler installs the hooks.
package verifyield

// Hook is called at every scheduling point (nil: no scheduler active).
var Hook func(site string)

// Blocked is called when a TryLock failed (nil: no scheduler active, block for real).
var Blocked func(site string)

var inOnce int

// Y is a scheduling point.
//
//go:norace
func Y(site string) {
	if h := Hook; h != nil && inOnce == 0 {
		h(site)
	}
}

// Acquire takes a lock without ever blocking while the scheduler's baton is held.
//
//go:norace
func Acquire(try func() bool, lock func(), site string) {
	Y(site)
	b := Blocked
	if b == nil || inOnce > 0 {
		lock()
		return
	}
	for !try() {
		b(site)
	}
}

type onceBody struct{ f func() }

//go:norace
func (o onceBody) run() {
	inOnce++
	defer onceDone()
	o.f()
}

//go:norace
func onceDone() { inOnce-- }

// Once runs a sync.Once-style Do with scheduling points suppressed inside f.
//
//go:norace
func Once(do func(func()), f func()) {
	Y("once")
	do(onceBody{f}.run)
}
`

var syncMethods = map[string]bool{
	"Lock": true, "Unlock": true, "RLock": true, "RUnlock": true, "Get": true, "Put": true,
	"Load": true, "Store": true, "Swap": true, "CompareAndSwap": true, "Add": true, "Done": true,
}

// Stats reports what was rewritten.
type Stats struct {
	Files, Yields, Locks, Onces int
}

// Instrument copies src (a Go module) to dst and rewrites it. module is the module path.
func Instrument(src, dst, module string) (*Stats, error) {
	st := &Stats{}
	if err := os.RemoveAll(dst); err != nil {
		return nil, err
	}
	err := filepath.Walk(src, func(p string, fi os.FileInfo, err error) error {
		if err != nil {
			return err
		}
		rel, _ := filepath.Rel(src, p)
		if fi.IsDir() {
			n := fi.Name()
			if rel != "." && (strings.HasPrefix(n, ".") || n == "testdata" || n == "testImages" || n == "assets" || n == "samples" || n == "cmd") {
				return filepath.SkipDir
			}
			return os.MkdirAll(filepath.Join(dst, rel), 0o755)
		}
		if !fi.Mode().IsRegular() {
			return nil
		}
		ext := filepath.Ext(p)
		base := filepath.Base(p)
		if ext != ".go" && ext != ".s" && ext != ".h" && base != "go.mod" && base != "go.sum" {
			return nil
		}
		if strings.HasSuffix(base, "_test.go") {
			return nil
		}
		out := filepath.Join(dst, rel)
		if ext == ".go" {
			b, err := os.ReadFile(p)
			if err != nil {
				return err
			}
			if isHookFile(b) {
				return os.WriteFile(out, b, 0o644)
			}
			nb, err := rewrite(rel, b, module, st)
			if err != nil {
				return fmt.Errorf("%s: %v", rel, err)
			}
			return os.WriteFile(out, nb, 0o644)
		}
		return copyFile(p, out)
	})
	if err != nil {
		return nil, err
	}
	if err := os.MkdirAll(filepath.Join(dst, "verifyield"), 0o755); err != nil {
		return nil, err
	}
	if err := os.WriteFile(filepath.Join(dst, "verifyield", "yield.go"), []byte(yieldPkg), 0o644); err != nil {
		return nil, err
	}
	return st, nil
}

func isHookFile(b []byte) bool {
	head := b
	if len(head) > 400 {
		head = head[:400]
	}
	for _, ln := range strings.Split(string(head), "\n") {
		if strings.HasPrefix(ln, "//go:build") && strings.Contains(ln, "verif") {
			return true
		}
		if strings.HasPrefix(ln, "package ") {
			break
		}
	}
	return false
}

func copyFile(a, b string) error {
	in, err := os.Open(a)
	if err != nil {
		return err
	}
	defer in.Close()
	out, err := os.Create(b)
	if err != nil {
		return err
	}
	defer out.Close()
	_, err = io.Copy(out, in)
	return err
}

type rewriter struct {
	fset *token.FileSet
	rel  string
	st   *Stats
	used bool
}

func (rw *rewriter) site(pos token.Pos) *ast.BasicLit {
	p := rw.fset.Position(pos)
	return &ast.BasicLit{Kind: token.STRING, Value: fmt.Sprintf("%q", fmt.Sprintf("%s:%d", rw.rel, p.Line))}
}

func sel(pkg, name string) *ast.SelectorExpr {
	return &ast.SelectorExpr{X: ast.NewIdent(pkg), Sel: ast.NewIdent(name)}
}

// syncCall reports whether e (not descending into function literals or nested blocks) contains a
// call on a synchronisation primitive.
func syncCall(n ast.Node) bool {
	found := false
	ast.Inspect(n, func(x ast.Node) bool {
		if found {
			return false
		}
		switch v := x.(type) {
		case *ast.FuncLit, *ast.BlockStmt:
			return false
		case *ast.CallExpr:
			if s, ok := v.Fun.(*ast.SelectorExpr); ok {
				if id, ok := s.X.(*ast.Ident); ok && id.Name == "atomic" {
					found = true
					return false
				}
				if syncMethods[s.Sel.Name] {
					if id, ok := s.X.(*ast.Ident); ok && (id.Name == "verifyield" || id.Name == "binary" || id.Name == "strings" || id.Name == "bytes") {
						return true
					}
					found = true
					return false
				}
			}
		}
		return true
	})
	return found
}

// header returns the parts of a compound statement that are evaluated before its body.
func header(s ast.Stmt) []ast.Node {
	switch v := s.(type) {
	case *ast.IfStmt:
		return []ast.Node{v.Init, v.Cond}
	case *ast.ForStmt:
		return []ast.Node{v.Init, v.Cond}
	case *ast.RangeStmt:
		return []ast.Node{v.X}
	case *ast.SwitchStmt:
		return []ast.Node{v.Init, v.Tag}
	case *ast.TypeSwitchStmt:
		return []ast.Node{v.Init, v.Assign}
	case *ast.BlockStmt, *ast.SelectStmt, *ast.LabeledStmt, *ast.DeferStmt, *ast.GoStmt, *ast.DeclStmt:
		return nil
	}
	return []ast.Node{s}
}

func (rw *rewriter) stmts(list []ast.Stmt) []ast.Stmt {
	var out []ast.Stmt
	for _, s := range list {
		// rewrite 2 and 3: the statement itself
		if es, ok := s.(*ast.ExprStmt); ok {
			if call, ok := es.X.(*ast.CallExpr); ok {
				if se, ok := call.Fun.(*ast.SelectorExpr); ok {
					switch {
					case (se.Sel.Name == "Lock" || se.Sel.Name == "RLock") && len(call.Args) == 0:
						try := "TryLock"
						if se.Sel.Name == "RLock" {
							try = "TryRLock"
						}
						s = &ast.ExprStmt{X: &ast.CallExpr{Fun: sel("verifyield", "Acquire"), Args: []ast.Expr{
							&ast.SelectorExpr{X: se.X, Sel: ast.NewIdent(try)},
							&ast.SelectorExpr{X: se.X, Sel: ast.NewIdent(se.Sel.Name)},
							rw.site(call.Pos())}}}
						rw.st.Locks++
						rw.used = true
						out = append(out, s)
						continue
					case se.Sel.Name == "Do" && len(call.Args) == 1:
						if id, ok := se.X.(*ast.Ident); !ok || (id.Name != "http" && id.Name != "client") {
							s = &ast.ExprStmt{X: &ast.CallExpr{Fun: sel("verifyield", "Once"), Args: []ast.Expr{
								&ast.SelectorExpr{X: se.X, Sel: ast.NewIdent("Do")}, call.Args[0]}}}
							rw.st.Onces++
							rw.used = true
							out = append(out, s)
							continue
						}
					}
				}
			}
		}
		// rewrite 1: a scheduling point before the statement
		need := false
		for _, h := range header(s) {
			if h != nil && !isNilNode(h) && syncCall(h) {
				need = true
			}
		}
		if need {
			out = append(out, &ast.ExprStmt{X: &ast.CallExpr{Fun: sel("verifyield", "Y"), Args: []ast.Expr{rw.site(s.Pos())}}})
			rw.st.Yields++
			rw.used = true
		}
		out = append(out, s)
	}
	return out
}

func isNilNode(n ast.Node) bool {
	switch v := n.(type) {
	case ast.Stmt:
		return v == nil
	case ast.Expr:
		return v == nil
	}
	return n == nil
}

func (rw *rewriter) walk(n ast.Node) {
	ast.Inspect(n, func(x ast.Node) bool {
		switch v := x.(type) {
		case *ast.BlockStmt:
			if v != nil {
				v.List = rw.stmts(v.List)
			}
		case *ast.CaseClause:
			v.Body = rw.stmts(v.Body)
		case *ast.CommClause:
			v.Body = rw.stmts(v.Body)
		}
		return true
	})
}

func rewrite(rel string, src []byte, module string, st *Stats) ([]byte, error) {
	fset := token.NewFileSet()
	f, err := parser.ParseFile(fset, rel, src, parser.ParseComments)
	if err != nil {
		return nil, err
	}
	rw := &rewriter{fset: fset, rel: rel, st: st}
	for _, d := range f.Decls {
		if fd, ok := d.(*ast.FuncDecl); ok && fd.Body != nil {
			rw.walk(fd.Body)
		}
	}
	if !rw.used {
		return src, nil
	}
	st.Files++
	// add the import
	imp := &ast.ImportSpec{Path: &ast.BasicLit{Kind: token.STRING, Value: fmt.Sprintf("%q", module+"/verifyield")}}
	gd := &ast.GenDecl{Tok: token.IMPORT, Specs: []ast.Spec{imp}}
	f.Decls = append([]ast.Decl{gd}, f.Decls...)
	var buf bytes.Buffer
	// comments are dropped from rewritten files except build constraints: inserted statements have
	// no positions and the printer would misplace the original comments
	var keep []*ast.CommentGroup
	docs := map[*ast.CommentGroup]bool{}
	for _, d := range f.Decls {
		switch v := d.(type) {
		case *ast.FuncDecl:
			docs[v.Doc] = true
		case *ast.GenDecl:
			docs[v.Doc] = true
		}
	}
	for _, cg := range f.Comments {
		if cg.End() < f.Package || docs[cg] {
			keep = append(keep, cg)
		}
	}
	f.Comments = keep
	if err := printer.Fprint(&buf, fset, f); err != nil {
		return nil, err
	}
	return buf.Bytes(), nil
}
