//go:build !race

package harness

// RaceBuild reports whether the worker was built with the race detector (world B of C05).
const RaceBuild = false
