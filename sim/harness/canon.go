// Package harness binds the simulated world to the real library: entry-point table, result
// canonicaliser, panic capture. All library code runs real; nothing in /repo is stubbed.
package harness

import (
	"errors"
	"fmt"
	"io"
	"math"
	"reflect"
	"sort"
	"strings"
	"time"

	"github.com/evanoberholster/imagemeta"
	"github.com/evanoberholster/imagemeta/exif2"
	"github.com/evanoberholster/imagemeta/imagetype"
	"github.com/evanoberholster/imagemeta/isobmff"
	"github.com/evanoberholster/imagemeta/jpeg"
	"github.com/evanoberholster/imagemeta/meta"
	"github.com/evanoberholster/imagemeta/xmp"
)

// Fields is the canonical observable surface of a result: ordered (path, value) pairs.
type Fields struct {
	K []string
	V []string
}

func (f *Fields) add(k, v string) { f.K = append(f.K, k); f.V = append(f.V, v) }

func (f *Fields) String() string {
	var sb strings.Builder
	for i := range f.K {
		sb.WriteString(f.K[i])
		sb.WriteByte('=')
		sb.WriteString(f.V[i])
		sb.WriteByte('\n')
	}
	return sb.String()
}

// Get returns the value at path ("" if absent).
func (f *Fields) Get(k string) string {
	for i := range f.K {
		if f.K[i] == k {
			return f.V[i]
		}
	}
	return ""
}

// Diff returns the first differing path between two field lists ("" if equal), skipping paths
// in skip.
func Diff(a, b *Fields, skip map[string]bool) (path, av, bv string) {
	am := map[string]string{}
	for i := range a.K {
		am[a.K[i]] = a.V[i]
	}
	bm := map[string]string{}
	for i := range b.K {
		bm[b.K[i]] = b.V[i]
	}
	keys := make([]string, 0, len(am)+len(bm))
	for k := range am {
		keys = append(keys, k)
	}
	for k := range bm {
		if _, ok := am[k]; !ok {
			keys = append(keys, k)
		}
	}
	sort.Strings(keys)
	for _, k := range keys {
		if skip != nil && skip[k] {
			continue
		}
		if am[k] != bm[k] {
			return k, am[k], bm[k]
		}
	}
	return "", "", ""
}

func canonTime(t time.Time) string {
	if t.IsZero() {
		name, off := t.Zone()
		if name == "UTC" && off == 0 {
			return "zero"
		}
	}
	name, off := t.Zone()
	return fmt.Sprintf("%d.%09d/%s/%d", t.Unix(), t.Nanosecond(), name, off)
}

func canonFloat64(f float64) string {
	if math.IsNaN(f) {
		return "NaN"
	}
	return fmt.Sprintf("%x", math.Float64bits(f))
}

func canonFloat32(f float32) string {
	if f != f {
		return "NaN"
	}
	return fmt.Sprintf("%x", math.Float32bits(f))
}

var timeType = reflect.TypeOf(time.Time{})

// walk canonicalises exported fields reflectively.
func walk(f *Fields, path string, v reflect.Value) {
	switch v.Kind() {
	case reflect.Struct:
		if v.Type() == timeType {
			f.add(path, canonTime(v.Interface().(time.Time)))
			return
		}
		t := v.Type()
		for i := 0; i < t.NumField(); i++ {
			if t.Field(i).PkgPath != "" { // unexported
				continue
			}
			walk(f, path+"."+t.Field(i).Name, v.Field(i))
		}
	case reflect.Slice:
		if v.Type().Elem().Kind() == reflect.Uint8 {
			f.add(path, fmt.Sprintf("%x", v.Bytes()))
			return
		}
		f.add(path+".len", fmt.Sprint(v.Len()))
		for i := 0; i < v.Len(); i++ {
			walk(f, fmt.Sprintf("%s[%d]", path, i), v.Index(i))
		}
	case reflect.Array:
		if v.Type().Elem().Kind() == reflect.Uint8 {
			b := make([]byte, v.Len())
			for i := range b {
				b[i] = byte(v.Index(i).Uint())
			}
			f.add(path, fmt.Sprintf("%x", b))
			return
		}
		for i := 0; i < v.Len(); i++ {
			walk(f, fmt.Sprintf("%s[%d]", path, i), v.Index(i))
		}
	case reflect.String:
		f.add(path, fmt.Sprintf("%q", v.String()))
	case reflect.Bool:
		f.add(path, fmt.Sprint(v.Bool()))
	case reflect.Int, reflect.Int8, reflect.Int16, reflect.Int32, reflect.Int64:
		f.add(path, fmt.Sprint(v.Int()))
	case reflect.Uint, reflect.Uint8, reflect.Uint16, reflect.Uint32, reflect.Uint64:
		f.add(path, fmt.Sprint(v.Uint()))
	case reflect.Float32:
		f.add(path, canonFloat32(float32(v.Float())))
	case reflect.Float64:
		f.add(path, canonFloat64(v.Float()))
	case reflect.Interface, reflect.Ptr:
		if v.IsNil() {
			f.add(path, "nil")
		} else {
			walk(f, path, v.Elem())
		}
	default:
		f.add(path, fmt.Sprintf("?%s", v.Kind()))
	}
}

// CanonExif canonicalises the observable surface of exif2.Exif: exported fields and accessors.
func CanonExif(e exif2.Exif) *Fields {
	f := &Fields{}
	walk(f, "Exif", reflect.ValueOf(e))
	f.add("Exif.ModifyDate()", canonTime(e.ModifyDate()))
	f.add("Exif.DateTimeOriginal()", canonTime(e.DateTimeOriginal()))
	f.add("Exif.CreateDate()", canonTime(e.CreateDate()))
	f.add("Exif.GPS.Latitude()", canonFloat64(e.GPS.Latitude()))
	f.add("Exif.GPS.Longitude()", canonFloat64(e.GPS.Longitude()))
	f.add("Exif.GPS.Altitude()", canonFloat32(e.GPS.Altitude()))
	f.add("Exif.GPS.Date()", canonTime(e.GPS.Date()))
	return f
}

// CanonAny canonicalises any value by exported fields.
func CanonAny(name string, v interface{}) *Fields {
	f := &Fields{}
	if v == nil {
		f.add(name, "nil")
		return f
	}
	walk(f, name, reflect.ValueOf(v))
	return f
}

// sentinels the library exports; an error is canonicalised as message + which sentinels it wraps.
var sentinels = []struct {
	name string
	err  error
}{
	{"io.EOF", io.EOF},
	{"io.ErrUnexpectedEOF", io.ErrUnexpectedEOF},
	{"meta.ErrNoExif", meta.ErrNoExif},
	{"meta.ErrInvalidHeader", meta.ErrInvalidHeader},
	{"meta.ErrBufLength", meta.ErrBufLength},
	{"imagemeta.ErrNoExifDecodeFn", imagemeta.ErrNoExifDecodeFn},
	{"imagemeta.ErrMetadataNotSupported", imagemeta.ErrMetadataNotSupported},
	{"imagetype.ErrImageTypeNotFound", imagetype.ErrImageTypeNotFound},
	{"imagetype.ErrDataLength", imagetype.ErrDataLength},
	{"jpeg.ErrNoJPEGMarker", jpeg.ErrNoJPEGMarker},
	{"jpeg.ErrEndOfImage", jpeg.ErrEndOfImage},
	{"isobmff.ErrBufLength", isobmff.ErrBufLength},
	{"isobmff.ErrRemainLengthInsufficient", isobmff.ErrRemainLengthInsufficient},
	{"isobmff.ErrWrongBoxType", isobmff.ErrWrongBoxType},
	{"xmp.ErrNoXMP", xmp.ErrNoXMP},
	{"xmp.ErrNegativeRead", xmp.ErrNegativeRead},
	{"xmp.ErrBufferFull", xmp.ErrBufferFull},
}

type causer interface{ Cause() error }

func isErr(err, target error) bool {
	for e := err; e != nil; {
		if e == target {
			return true
		}
		if errors.Is(e, target) {
			return true
		}
		c, ok := e.(causer)
		if !ok {
			break
		}
		e = c.Cause()
	}
	return false
}

// CanonErr canonicalises an error: message + exported sentinels it wraps.
func CanonErr(err error) string {
	if err == nil {
		return "<nil>"
	}
	s := err.Error()
	var w []string
	for _, se := range sentinels {
		if isErr(err, se.err) {
			w = append(w, se.name)
		}
	}
	if len(w) > 0 {
		s += " [" + strings.Join(w, ",") + "]"
	}
	return s
}
