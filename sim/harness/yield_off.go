//go:build !verifyield

package harness

// SyncYields: see yield_on.go.
const SyncYields = false

// SetSyncHooks is a no-op in the uninstrumented build.
func SetSyncHooks(yield, blocked func(site string)) {}
