//go:build verifyield

package harness

import "github.com/evanoberholster/imagemeta/verifyield"

// SyncYields: the worker was built from the instrumented copy of the repository, in which the
// library's synchronisation operations are scheduling points (sim/yieldinst).
const SyncYields = true

// SetSyncHooks installs (or, with nils, removes) the scheduler's hooks.
func SetSyncHooks(yield, blocked func(site string)) {
	verifyield.Hook = yield
	verifyield.Blocked = blocked
}
