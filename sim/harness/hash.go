package harness

import (
	"fmt"
	"image"

	"github.com/evanoberholster/imagemeta/imagehash"

	"verifsim/world"
)

// Hash entry points.
const (
	HPHash64     = 0
	HPHash64Alt  = 1
	HPHash256    = 2
	HPHash256Alt = 3

	HAHash    = 4 // average hash: any image size
	HBlurHash = 5 // BlurHash string: any image size
)

var HashNames = []string{"NewPHash64", "NewPHash64Alt", "NewPHash256", "NewPHash256Alt", "NewAHash", "EncodeBlurHashFast"}

// HashSize returns the image edge the entry point requires and the hash's coefficient block edge.
func HashSize(fn int) (n, k int) {
	if fn >= HPHash256 {
		return 256, 16
	}
	return 64, 8
}

// HashResult is the outcome of one hash call.
type HashResult struct {
	Words [4]uint64 // 64-bit hash in Words[0]; 256-bit hash in all four
	Err   string
	ErrOK bool
	Panic *PanicInfo
}

func (h *HashResult) Canon() string {
	if h.Panic != nil {
		return "panic:" + h.Panic.Class + ":" + h.Panic.Func
	}
	return fmt.Sprintf("%016x%016x%016x%016x err=%s", h.Words[0], h.Words[1], h.Words[2], h.Words[3], h.Err)
}

// Bits returns the hash as one boolean per coefficient in row-major (v,u) order: coefficient i
// is bit 63-(i%64) of word i/64 (most significant bit first).
func (h *HashResult) Bits(fn int) []bool {
	_, k := HashSize(fn)
	out := make([]bool, k*k)
	for i := range out {
		out[i] = h.Words[i/64]>>(63-uint(i%64))&1 == 1
	}
	return out
}

// Hash calls one hash entry point with panic capture.
func Hash(fn int, img image.Image) *HashResult {
	res := &HashResult{}
	var err error
	res.Panic = Guard(func() {
		switch fn {
		case HPHash64:
			var h imagehash.PHash64
			h, err = imagehash.NewPHash64(img)
			res.Words[0] = uint64(h)
		case HPHash64Alt:
			var h imagehash.PHash64
			h, err = imagehash.NewPHash64Alt(img)
			res.Words[0] = uint64(h)
		case HPHash256:
			var h imagehash.PHash256
			h, err = imagehash.NewPHash256(img)
			res.Words = h
		case HPHash256Alt:
			var h imagehash.PHash256
			h, err = imagehash.NewPHash256Alt(img)
			res.Words = h
		case HAHash:
			var h imagehash.Ahash
			h, err = imagehash.NewAHash(img)
			res.Words[0] = uint64(h)
		case HBlurHash:
			var str string
			str, err = imagehash.EncodeBlurHashFast(img)
			res.Words[0], res.Words[1] = fnv([]byte(str)), uint64(len(str))
		}
	})
	res.Err = CanonErr(err)
	res.ErrOK = err == nil
	return res
}

// Distance64 / Distance256 expose the library's hash distances.
func Distance64(a, b uint64) int { return int(imagehash.PHash64(a).Distance(imagehash.PHash64(b))) }

func Distance256(a, b [4]uint64) int {
	return int(imagehash.PHash256(a).Distance(imagehash.PHash256(b)))
}

type atHooker interface{ SetOnAt(func()) }

// HashEntry wraps a hash call on a fixed image as an entry point, so that hash calls can stand
// in histories and task lists next to decodes. A generic image's At becomes a device event.
func HashEntry(fn int, img image.Image) *Entry {
	return &Entry{Name: "imagehash." + HashNames[fn], Call: func(env *Env, r *world.SimReader, res *Result) {
		if h, ok := img.(atHooker); ok {
			n := 0
			h.SetOnAt(func() {
				if n++; n%64 == 0 { // every 64th pixel access is a scheduling point
					r.Dev.Event("at")
				}
			})
			defer h.SetOnAt(nil)
		}
		hr := Hash(fn, img)
		res.Fields = &Fields{}
		res.Fields.add("Hash", fmt.Sprintf("%016x%016x%016x%016x", hr.Words[0], hr.Words[1], hr.Words[2], hr.Words[3]))
		res.Err, res.ErrNil = hr.Err, hr.ErrOK
		if hr.Panic != nil {
			panic(hashPanic{hr.Panic})
		}
	}}
}

type hashPanic struct{ pi *PanicInfo }
