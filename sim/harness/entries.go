package harness

import (
	"bufio"
	"fmt"
	"io"
	"runtime"
	"runtime/metrics"
	"strings"

	"github.com/evanoberholster/imagemeta"
	"github.com/evanoberholster/imagemeta/exif2"
	"github.com/evanoberholster/imagemeta/imagetype"
	"github.com/evanoberholster/imagemeta/isobmff"
	"github.com/evanoberholster/imagemeta/jpeg"
	"github.com/evanoberholster/imagemeta/meta"
	"github.com/evanoberholster/imagemeta/meta/utils"
	"github.com/evanoberholster/imagemeta/png"
	"github.com/evanoberholster/imagemeta/tiff"
	"github.com/evanoberholster/imagemeta/xmp"

	"verifsim/world"
)

const libPrefix = "github.com/evanoberholster/imagemeta"

// Reader kinds (cfg.reader knob).
const (
	RKRaw       = 0 // the SimReader itself
	RKOnly      = 1 // plain io.Reader (no Seek/ReadAt visible)
	RKBufio4096 = 2
	RKBufio8192 = 3
	RKBufio64K  = 4
	RKBufio16   = 5 // smaller than every library minimum: forces re-wrapping
	RKBufio32   = 6 // exactly the TIFF header search window
	RKBufio24   = 7 // exactly the sniffing window
	RKBufio64   = 8 // sizes between the scanners' own windows and the 4 KiB the value readers need:
	RKBufio256  = 9 // a caller's reader of such a size must be wrapped, not adopted
	RKBufio1024 = 10
	NumRK       = 11
)

var RKNames = []string{"raw", "readeronly", "bufio4096", "bufio8192", "bufio65536", "bufio16", "bufio32", "bufio24", "bufio64", "bufio256", "bufio1024"}

// Env is the per-call environment chosen by the simulator.
type Env struct {
	RK        int
	ExifActor *world.Actor // nil => the library's own exif2 reader is the callback
	XmpActor  *world.Actor // nil => the library's own xmp parser is the callback
	PrevActor *world.Actor // nil => the library's own preview reader
	NilCB     bool         // pass nil callbacks
	MaxMeta   int          // ReadMetadata calls for the isobmff protocol entry (default 8)
	// Prepos: the caller has already taken this many bytes from the stream (by reading, or with
	// Seek when PreposSeek is set) before it hands the reader to a sniffing entry point.
	Prepos     int
	PreposSeek bool
}

// prepos moves the stream to where the caller of a sniffing entry point stands.
func prepos(env *Env, r *world.SimReader, rd io.Reader) {
	if env.Prepos <= 0 {
		return
	}
	if env.PreposSeek {
		if _, err := r.Seek(int64(env.Prepos), io.SeekStart); err != nil {
			panic("verif: pre-positioning seek failed: " + err.Error())
		}
		return
	}
	if n, err := io.CopyN(io.Discard, rd, int64(env.Prepos)); err != nil || n != int64(env.Prepos) {
		panic("verif: pre-positioning read failed")
	}
}

// PanicInfo describes a recovered panic.
type PanicInfo struct {
	Value string
	Class string // index slice nil divide conversion makeslice budget custom:<text>
	Func  string // innermost library function
	Stack string
}

// Result of one entry-point call.
type Result struct {
	Fields *Fields
	Err    string
	ErrNil bool
	Panic  *PanicInfo
	Br     *bufio.Reader // harness-owned bufio, if any (position observation)
	Exif   *exif2.Exif
	XMP    *xmp.XMP
	Type   imagetype.ImageType
	Header *meta.ExifHeader
	Prev   []byte
	Steps  []string // per-step errors of protocol entries
}

// Canon returns value+error as one canonical string.
func (r *Result) Canon() string {
	s := ""
	if r.Fields != nil {
		s = r.Fields.String()
	}
	return s + "err=" + r.Err
}

// Entry is one public entry point that consumes file bytes.
type Entry struct {
	Name     string
	NeedSeek bool // takes io.ReadSeeker: reader-kind knob is not applicable
	Call     func(env *Env, r *world.SimReader, res *Result)
	// Formats the entry point is meant for ("" = any); used only to bias workloads.
	Hint string
}

func mkReader(env *Env, r *world.SimReader, res *Result) io.Reader {
	switch env.RK {
	case RKOnly:
		return world.OnlyReader{R: r}
	case RKBufio4096:
		res.Br = bufio.NewReaderSize(r, 4096)
		return res.Br
	case RKBufio8192:
		res.Br = bufio.NewReaderSize(r, 8192)
		return res.Br
	case RKBufio64K:
		res.Br = bufio.NewReaderSize(r, 65536)
		return res.Br
	case RKBufio16:
		res.Br = bufio.NewReaderSize(r, 16)
		return res.Br
	case RKBufio32:
		res.Br = bufio.NewReaderSize(r, 32)
		return res.Br
	case RKBufio24:
		res.Br = bufio.NewReaderSize(r, 24)
		return res.Br
	case RKBufio64:
		res.Br = bufio.NewReaderSize(r, 64)
		return res.Br
	case RKBufio256:
		res.Br = bufio.NewReaderSize(r, 256)
		return res.Br
	case RKBufio1024:
		res.Br = bufio.NewReaderSize(r, 1024)
		return res.Br
	}
	return r
}

// SkipCanon: long histories (C14) do not canonicalise the result of every call.
var SkipCanon bool

func setExif(res *Result, e exif2.Exif, err error) {
	res.Exif = &e
	if SkipCanon {
		res.Fields = &Fields{}
	} else {
		res.Fields = CanonExif(e)
	}
	res.Err = CanonErr(err)
	res.ErrNil = err == nil
}

func headerString(h meta.ExifHeader) string {
	return fmt.Sprintf("bo=%s first=%d tiff=%d len=%d ifd=%s it=%s", h.ByteOrder, h.FirstIfdOffset, h.TiffHeaderOffset, h.ExifLength, h.FirstIfd, h.ImageType)
}

func exifCB(env *Env, ir interface {
	DecodeJPEGIfd(io.Reader, meta.ExifHeader) error
	DecodeIfd(io.Reader, meta.ExifHeader) error
}, jpegMode bool) func(io.Reader, meta.ExifHeader) error {
	if env.NilCB {
		return nil
	}
	if env.ExifActor != nil {
		a := env.ExifActor
		return func(r io.Reader, h meta.ExifHeader) error {
			declared := int(h.ExifLength)
			if !jpegMode {
				declared = -1
			}
			return a.Run(r, headerString(h), declared)
		}
	}
	if jpegMode {
		return ir.DecodeJPEGIfd
	}
	return ir.DecodeIfd
}

func xmpCB(env *Env, res *Result) func(io.Reader) error {
	if env.NilCB {
		return nil
	}
	if env.XmpActor != nil {
		a := env.XmpActor
		return func(r io.Reader) error { return a.Run(r, "", -1) }
	}
	return func(r io.Reader) error {
		// xmp.ParseXmp as the caller's callback is an entry-point call of its own (one per XMP segment
		// or box): what it allocates is accounted to that call, not to the scanner that invoked the
		// callback (C14 judges both: the scanner without its callbacks' calls, every nested call alone)
		var n0 uint64
		nested := MeasureAlloc && measuring
		if nested {
			n0 = allocNow()
		}
		x, err := xmp.ParseXmp(r)
		if nested {
			d := allocNow() - n0
			NestedAlloc += d
			if d > NestedMax {
				NestedMax = d
			}
		}
		res.XMP = &x
		_ = err // the parser legitimately ends with io.EOF; the library's own callers ignore it
		return nil
	}
}

// NestedAlloc / NestedMax: bytes allocated inside nested entry-point calls made from callbacks
// during the measured call (sum, and the largest single one).
var NestedAlloc, NestedMax uint64

func allocNow() uint64 {
	if AllocScreen {
		return screenBytes()
	}
	var m runtime.MemStats
	runtime.ReadMemStats(&m)
	return m.TotalAlloc
}

func actorFields(f *Fields, name string, a *world.Actor) {
	if a == nil {
		return
	}
	f.add(name+".invocations", fmt.Sprint(len(a.Inv)))
	for i, inv := range a.Inv {
		p := fmt.Sprintf("%s[%d]", name, i)
		f.add(p+".header", inv.Header)
		f.add(p+".got", fmt.Sprintf("%d:%x", len(inv.Got), fnv(inv.Got)))
		f.add(p+".err", inv.Err)
		if len(inv.Extra) > 0 {
			f.add(p+".extra", fmt.Sprintf("%x", inv.Extra))
		}
	}
}

// FNV is the 64-bit FNV-1a hash of b.
func FNV(b []byte) uint64 { return fnv(b) }

func fnv(b []byte) uint64 {
	h := uint64(0xcbf29ce484222325)
	for _, c := range b {
		h ^= uint64(c)
		h *= 0x100000001b3
	}
	return h
}

// Alloc probe (C14): when MeasureAlloc is set, TotalAlloc is sampled immediately around the
// library call(s) of an entry point, excluding the harness's own canonicalisation.
var (
	MeasureAlloc bool
	AllocDelta   uint64
	mem0         runtime.MemStats
	mem1         runtime.MemStats
)

var measuring bool

// AllocScreen switches the probe to the runtime/metrics allocation counter, which is cheap (no
// stop-the-world) but approximate: small objects are accounted when their span is retired, so a
// call can be charged for earlier calls' objects. It is used to find candidate calls inside long
// histories; a verdict is only ever taken from the exact probe.
var AllocScreen bool

var screenSample = []metrics.Sample{{Name: "/gc/heap/allocs:bytes"}}

func screenBytes() uint64 {
	metrics.Read(screenSample)
	if screenSample[0].Value.Kind() != metrics.KindUint64 {
		panic("verif: /gc/heap/allocs:bytes is not available in this runtime")
	}
	return screenSample[0].Value.Uint64()
}

var screen0 uint64

func m0() {
	if MeasureAlloc {
		measuring = true
		if AllocScreen {
			screen0 = screenBytes()
			return
		}
		runtime.ReadMemStats(&mem0)
	}
}

func m1() {
	if MeasureAlloc {
		if AllocScreen {
			AllocDelta = screenBytes() - screen0 - NestedAlloc
			measuring = false
			return
		}
		runtime.ReadMemStats(&mem1)
		AllocDelta = mem1.TotalAlloc - mem0.TotalAlloc - NestedAlloc
		measuring = false
	}
}

// Entries is the table of every public function that consumes file bytes.
var Entries = []*Entry{
	{Name: "Decode", NeedSeek: true, Call: func(env *Env, r *world.SimReader, res *Result) {
		m0()
		e, err := imagemeta.Decode(r)
		m1()
		setExif(res, e, err)
	}},
	{Name: "DecodeTiff", NeedSeek: true, Hint: "tiff", Call: func(env *Env, r *world.SimReader, res *Result) {
		m0()
		e, err := imagemeta.DecodeTiff(r)
		m1()
		setExif(res, e, err)
	}},
	{Name: "DecodeCR2", NeedSeek: true, Hint: "tiff", Call: func(env *Env, r *world.SimReader, res *Result) {
		m0()
		e, err := imagemeta.DecodeCR2(r)
		m1()
		setExif(res, e, err)
	}},
	{Name: "DecodeHeif", NeedSeek: true, Hint: "heif", Call: func(env *Env, r *world.SimReader, res *Result) {
		m0()
		e, err := imagemeta.DecodeHeif(r)
		m1()
		setExif(res, e, err)
	}},
	{Name: "DecodeJPEG", NeedSeek: true, Hint: "jpeg", Call: func(env *Env, r *world.SimReader, res *Result) {
		m0()
		e, err := imagemeta.DecodeJPEG(r)
		m1()
		setExif(res, e, err)
	}},
	{Name: "DecodePng", NeedSeek: true, Hint: "png", Call: func(env *Env, r *world.SimReader, res *Result) {
		m0()
		e, err := imagemeta.DecodePng(r)
		m1()
		setExif(res, e, err)
	}},
	{Name: "DecodeCR3", NeedSeek: true, Hint: "cr3", Call: func(env *Env, r *world.SimReader, res *Result) {
		m0()
		e, err := imagemeta.DecodeCR3(r)
		m1()
		setExif(res, e, err)
	}},
	{Name: "PreviewCR3", NeedSeek: true, Hint: "cr3", Call: func(env *Env, r *world.SimReader, res *Result) {
		m0()
		b, err := imagemeta.PreviewCR3(r)
		m1()
		res.Prev = b
		res.Fields = &Fields{}
		res.Fields.add("Preview", fmt.Sprintf("%d:%x", len(b), fnv(b)))
		res.Err = CanonErr(err)
		res.ErrNil = err == nil
	}},
	{Name: "exif2.Parse", NeedSeek: true, Hint: "tiff", Call: func(env *Env, r *world.SimReader, res *Result) {
		m0()
		e, err := exif2.Parse(r)
		m1()
		setExif(res, e, err)
	}},
	{Name: "jpeg.ScanJPEG", Hint: "jpeg", Call: func(env *Env, r *world.SimReader, res *Result) {
		ir := exif2.NewIfdReader(exif2.Logger)
		defer ir.Close()
		rd := mkReader(env, r, res)
		prepos(env, r, rd)
		ecb, xcb := exifCB(env, &ir, true), xmpCB(env, res)
		m0()
		err := jpeg.ScanJPEG(rd, ecb, xcb)
		m1()
		res.Fields = CanonExif(ir.Exif)
		if res.XMP != nil {
			x := CanonAny("XMP", *res.XMP)
			res.Fields.K = append(res.Fields.K, x.K...)
			res.Fields.V = append(res.Fields.V, x.V...)
		}
		actorFields(res.Fields, "exifActor", env.ExifActor)
		actorFields(res.Fields, "xmpActor", env.XmpActor)
		e := ir.Exif
		res.Exif = &e
		res.Err = CanonErr(err)
		res.ErrNil = err == nil
	}},
	{Name: "tiff.ScanTiffHeader", Hint: "tiff", Call: func(env *Env, r *world.SimReader, res *Result) {
		rd := mkReader(env, r, res)
		prepos(env, r, rd)
		m0()
		h, err := tiff.ScanTiffHeader(rd, imagetype.ImageUnknown)
		m1()
		res.Header = &h
		res.Fields = &Fields{}
		res.Fields.add("Header", headerString(h))
		res.Err = CanonErr(err)
		res.ErrNil = err == nil
	}},
	{Name: "png.ScanPngHeader", NeedSeek: true, Hint: "png", Call: func(env *Env, r *world.SimReader, res *Result) {
		m0()
		h, err := png.ScanPngHeader(r)
		m1()
		res.Header = &h
		res.Fields = &Fields{}
		res.Fields.add("Header", headerString(h))
		res.Err = CanonErr(err)
		res.ErrNil = err == nil
	}},
	{Name: "isobmff.Reader", Hint: "bmff", Call: func(env *Env, r *world.SimReader, res *Result) {
		ir := exif2.NewIfdReader(exif2.Logger)
		defer ir.Close()
		rd := mkReader(env, r, res)
		prepos(env, r, rd)
		bmr := isobmff.NewReader(rd)
		defer bmr.Close()
		bmr.ExifReader = exifCB(env, &ir, false)
		bmr.XMPReader = xmpCB(env, res)
		if !env.NilCB {
			if env.PrevActor != nil {
				a := env.PrevActor
				bmr.PreviewImageReader = func(r io.Reader, h meta.PreviewHeader) error {
					return a.Run(r, fmt.Sprintf("size=%d w=%d h=%d", h.Size, h.Width, h.Height), int(h.Size))
				}
			} else {
				bmr.PreviewImageReader = func(r io.Reader, h meta.PreviewHeader) error {
					n := int64(h.Size)
					if n > 1<<20 {
						n = 1 << 20
					}
					b, _ := io.ReadAll(io.LimitReader(r, n))
					res.Prev = b
					return nil
				}
			}
		}
		res.Fields = &Fields{}
		max := env.MaxMeta
		if max == 0 {
			max = 8
		}
		var errs [16]error
		m0()
		err := bmr.ReadFTYP()
		errs[0] = err
		ne := 1
		for i := 0; err == nil && i < max && ne < len(errs); i++ {
			err = bmr.ReadMetadata()
			errs[ne] = err
			ne++
		}
		m1()
		for i := 0; i < ne; i++ {
			res.Steps = append(res.Steps, CanonErr(errs[i]))
		}
		for i, s := range res.Steps {
			res.Fields.add(fmt.Sprintf("step[%d]", i), s)
		}
		ef := CanonExif(ir.Exif)
		res.Fields.K = append(res.Fields.K, ef.K...)
		res.Fields.V = append(res.Fields.V, ef.V...)
		if res.XMP != nil {
			x := CanonAny("XMP", *res.XMP)
			res.Fields.K = append(res.Fields.K, x.K...)
			res.Fields.V = append(res.Fields.V, x.V...)
		}
		if res.Prev != nil {
			res.Fields.add("Preview", fmt.Sprintf("%d:%x", len(res.Prev), fnv(res.Prev)))
		}
		actorFields(res.Fields, "exifActor", env.ExifActor)
		actorFields(res.Fields, "xmpActor", env.XmpActor)
		actorFields(res.Fields, "prevActor", env.PrevActor)
		e := ir.Exif
		res.Exif = &e
		res.Err = CanonErr(err)
		res.ErrNil = err == nil
	}},
	{Name: "xmp.ParseXmp", Hint: "xmp", Call: func(env *Env, r *world.SimReader, res *Result) {
		rd := mkReader(env, r, res)
		prepos(env, r, rd)
		m0()
		x, err := xmp.ParseXmp(rd)
		m1()
		res.XMP = &x
		res.Fields = CanonAny("XMP", x)
		res.Err = CanonErr(err)
		res.ErrNil = err == nil
	}},
	{Name: "imagetype.Scan", Call: func(env *Env, r *world.SimReader, res *Result) {
		rd := mkReader(env, r, res)
		prepos(env, r, rd)
		m0()
		t, err := imagetype.Scan(rd)
		m1()
		setType(res, t, err)
	}},
	{Name: "imagetype.ScanBuf", Call: func(env *Env, r *world.SimReader, res *Result) {
		rk := env.RK
		if rk < RKBufio4096 || rk == RKBufio16 {
			// ScanBuf is handed the caller's own *bufio.Reader and cannot re-wrap it without
			// consuming from it: a reader that can hold the 24-byte window is the caller's part
			rk = RKBufio4096
		}
		e2 := *env
		e2.RK = rk
		rd := mkReader(&e2, r, res)
		prepos(env, r, rd)
		m0()
		t, err := imagetype.ScanBuf(rd.(*bufio.Reader))
		m1()
		setType(res, t, err)
	}},
	{Name: "imagetype.ReadAt", Call: func(env *Env, r *world.SimReader, res *Result) {
		m0()
		t, err := imagetype.ReadAt(r)
		m1()
		setType(res, t, err)
	}},
	{Name: "imagetype.Buf", Call: func(env *Env, r *world.SimReader, res *Result) {
		// the slice seam: the device hands over whatever it holds up to its end point
		b, _ := io.ReadAll(r)
		m0()
		t, err := imagetype.Buf(b)
		m1()
		setType(res, t, err)
	}},
}

func setType(res *Result, t imagetype.ImageType, err error) {
	res.Type = t
	res.Fields = &Fields{}
	res.Fields.add("ImageType", fmt.Sprint(uint8(t)))
	res.Err = CanonErr(err)
	res.ErrNil = err == nil
}

// EntryByName finds an entry point.
func EntryByName(n string) *Entry {
	for _, e := range Entries {
		if e.Name == n {
			return e
		}
	}
	for _, e := range ExtraEntries {
		if e.Name == n {
			return e
		}
	}
	return nil
}

// ExtraEntries are entry points added after campaigns had begun to enumerate Entries by index
// (so they are kept apart): the methods of the reader that exif2.NewIfdReader returns, called
// directly on an Exif block as a container scanner would call them.
var ExtraEntries = []*Entry{
	{Name: "exif2.DecodeJPEGIfd", Hint: "tiff", Call: func(env *Env, r *world.SimReader, res *Result) { ifdDirect(env, r, res, true) }},
	{Name: "exif2.DecodeIfd", Hint: "tiff", Call: func(env *Env, r *world.SimReader, res *Result) { ifdDirect(env, r, res, false) }},
}

func ifdDirect(env *Env, r *world.SimReader, res *Result, jpegStyle bool) {
	ir := exif2.NewIfdReader(exif2.Logger)
	defer ir.Close()
	rd := mkReader(env, r, res)
	prepos(env, r, rd)
	// the caller knows the block: byte order, first directory and length come from its bytes
	d := r.Data
	if env.Prepos > 0 && env.Prepos <= len(d) {
		d = d[env.Prepos:] // the stream was handed over mid-way: the block is what is left of it
	}
	if len(d) < 8 {
		res.Err, res.Fields = "short", &Fields{}
		return
	}
	bo := utils.BinaryOrder(d[:4])
	h := meta.NewExifHeader(bo, bo.Uint32(d[4:8]), 0, uint32(len(d)), imagetype.ImageJPEG)
	var err error
	m0()
	if jpegStyle {
		// the reader stands at the TIFF header
		err = ir.DecodeJPEGIfd(rd, h)
	} else {
		// the reader stands behind the TIFF header
		var hdr [8]byte
		if _, err = io.ReadFull(rd, hdr[:]); err == nil {
			err = ir.DecodeIfd(rd, h)
		}
	}
	m1()
	setExif(res, ir.Exif, err)
}

// Invoke calls an entry point with panic capture. A panic swallowed by the library's own
// recover is a normal return and is not seen here.
func Invoke(e *Entry, env *Env, r *world.SimReader) (res *Result) {
	res = &Result{}
	if MeasureAlloc { // package-level meter state is touched only in the single-task C14 world
		AllocDelta = 0
		NestedAlloc, NestedMax = 0, 0
		measuring = false
	}
	if e.NeedSeek && env != nil && env.Prepos > 0 {
		// the entry points that take an io.ReadSeeker are handed the device itself, positioned by
		// the caller (the others position it behind their reader kind, see prepos)
		prepos(env, r, r)
	}
	defer func() {
		if p := recover(); p != nil {
			if hp, ok := p.(hashPanic); ok {
				res.Panic = hp.pi
				return
			}
			res.Panic = analysePanic(p)
			if MeasureAlloc && measuring {
				m1() // the call panicked inside the measured window
			}
		}
	}()
	e.Call(env, r, res)
	return res
}

// Guard runs f with panic capture (for non-reader entry points such as hashing).
func Guard(f func()) (pi *PanicInfo) {
	defer func() {
		if p := recover(); p != nil {
			pi = analysePanic(p)
		}
	}()
	f()
	return nil
}

func analysePanic(p interface{}) *PanicInfo {
	pi := &PanicInfo{Value: fmt.Sprint(p)}
	if _, ok := p.(world.BudgetExceeded); ok {
		pi.Class = "budget"
	} else {
		pi.Class = panicClass(pi.Value)
	}
	pcs := make([]uintptr, 64)
	n := runtime.Callers(3, pcs)
	frames := runtime.CallersFrames(pcs[:n])
	var sb strings.Builder
	seenPanic := false
	for {
		fr, more := frames.Next()
		fmt.Fprintf(&sb, "%s\n\t%s:%d\n", fr.Function, fr.File, fr.Line)
		if fr.Function == "runtime.gopanic" || fr.Function == "runtime.panicmem" || fr.Function == "runtime.sigpanic" || strings.HasPrefix(fr.Function, "runtime.goPanic") || strings.HasPrefix(fr.Function, "runtime.panic") {
			seenPanic = true
			pi.Func = ""
		} else if seenPanic && pi.Func == "" && strings.HasPrefix(fr.Function, libPrefix) {
			pi.Func = strings.TrimPrefix(fr.Function, libPrefix)
		}
		if !more {
			break
		}
	}
	if pi.Func == "" {
		pi.Func = "?"
	}
	pi.Stack = sb.String()
	return pi
}

func panicClass(v string) string {
	switch {
	case strings.Contains(v, "index out of range"):
		return "index"
	case strings.Contains(v, "slice bounds out of range"):
		return "slice"
	case strings.Contains(v, "nil pointer dereference"):
		return "nil"
	case strings.Contains(v, "integer divide by zero"):
		return "divide"
	case strings.Contains(v, "interface conversion"):
		return "conversion"
	case strings.Contains(v, "makeslice") || strings.Contains(v, "len out of range") || strings.Contains(v, "cap out of range"):
		return "makeslice"
	}
	// custom text: strip digits so that offsets do not rename the signature
	var sb strings.Builder
	for _, c := range v {
		if c >= '0' && c <= '9' {
			continue
		}
		sb.WriteRune(c)
		if sb.Len() >= 40 {
			break
		}
	}
	return "custom:" + sb.String()
}

// Recanon re-canonicalises the objects a call returned (not the canonical text computed at
// return time): a result that aliases pooled memory changes visibly when the pools are reused or
// overwritten later (C04's immutability clause).
func (r *Result) Recanon() string {
	var sb strings.Builder
	if r.Exif != nil {
		sb.WriteString(CanonExif(*r.Exif).String())
	}
	if r.XMP != nil {
		sb.WriteString(CanonAny("XMP", *r.XMP).String())
	}
	if r.Prev != nil {
		fmt.Fprintf(&sb, "Preview=%d:%x\n", len(r.Prev), fnv(r.Prev))
	}
	if r.Header != nil {
		sb.WriteString("Header=" + headerString(*r.Header) + "\n")
	}
	fmt.Fprintf(&sb, "Type=%d\n", uint8(r.Type))
	return sb.String()
}
