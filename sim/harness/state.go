package harness

import (
	"runtime"

	"github.com/evanoberholster/imagemeta"
	"github.com/evanoberholster/imagemeta/exif2"
	"github.com/evanoberholster/imagemeta/imagehash"
	"github.com/evanoberholster/imagemeta/imagehash/transforms32"
	"github.com/evanoberholster/imagemeta/isobmff"
	"github.com/evanoberholster/imagemeta/jpeg"
)

// Shared-state controller (DESIGN §2.4): pools, zone cache, GC points. Uses the `verif` hooks.

// Pristine restores process-start state in every pool and cache.
func Pristine() {
	exif2.VerifPristine()
	imagehash.VerifPristine()
	imagemeta.VerifPristine()
	jpeg.VerifPristine()
	isobmff.VerifPristine()
}

// GCPoint empties the pools (primary and victim caches), drops the registries and restores
// pristine state. GC points are simulator events, not runtime whims.
func GCPoint() {
	runtime.GC()
	runtime.GC()
	exif2.VerifForget()
	imagehash.VerifForget()
	imagemeta.VerifForget()
	jpeg.VerifForget()
	isobmff.VerifForget()
	Pristine()
}

// PoolObjects returns the number of pooled objects created so far, per pool family.
func PoolObjects() (exifBufs, pixelBufs, readers int) {
	return exif2.VerifPoolObjects(), imagehash.VerifPoolObjects(), imagemeta.VerifPoolObjects() + jpeg.VerifPoolObjects() + isobmff.VerifPoolObjects()
}

// ReaderResidue leaves pattern in every pooled bufio.Reader's internal buffer.
func ReaderResidue(pattern []byte) {
	big := make([]byte, 0, 64*1024)
	for len(big) < 64*1024 && len(pattern) > 0 {
		big = append(big, pattern...)
	}
	imagemeta.VerifSetResidue(big)
	jpeg.VerifSetResidue(big)
	isobmff.VerifSetResidue(big)
	imagemeta.VerifSetResidue(nil)
	jpeg.VerifSetResidue(nil)
	isobmff.VerifSetResidue(nil)
}

// SetDispatch selects assembly or portable kernels; returns false when asm is unavailable.
func SetDispatch(asm bool) bool {
	if asm && !transforms32.VerifHaveASM() {
		return false
	}
	transforms32.VerifSetDispatch(asm)
	return true
}
