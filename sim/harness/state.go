package harness

import (
	"math"
	"runtime"

	"github.com/evanoberholster/imagemeta"
	"github.com/evanoberholster/imagemeta/exif2"
	"github.com/evanoberholster/imagemeta/exif2/ifds"
	"github.com/evanoberholster/imagemeta/exif2/tag"
	"github.com/evanoberholster/imagemeta/imagehash"
	"github.com/evanoberholster/imagemeta/imagehash/transforms32"
	"github.com/evanoberholster/imagemeta/isobmff"
	"github.com/evanoberholster/imagemeta/jpeg"
	"github.com/evanoberholster/imagemeta/meta/utils"
)

// Shared-state controller (DESIGN §2.4): pools, zone cache, GC points. Uses the `verif` hooks.

// Pristine restores process-start state in every pool and cache.
func Pristine() {
	exif2.VerifPristine()
	imagehash.VerifPristine()
	imagemeta.VerifPristine()
	jpeg.VerifPristine()
	isobmff.VerifPristine()
}

// GCPoint empties the pools (primary and victim caches), drops the registries and restores
// pristine state. GC points are simulator events, not runtime whims.
func GCPoint() {
	runtime.GC()
	runtime.GC()
	exif2.VerifForget()
	imagehash.VerifForget()
	imagemeta.VerifForget()
	jpeg.VerifForget()
	isobmff.VerifForget()
	Pristine()
}

// PoolObjects returns the number of pooled objects created so far, per pool family.
func PoolObjects() (exifBufs, pixelBufs, readers int) {
	return exif2.VerifPoolObjects(), imagehash.VerifPoolObjects(), imagemeta.VerifPoolObjects() + jpeg.VerifPoolObjects() + isobmff.VerifPoolObjects()
}

// ReaderResidue leaves pattern in every pooled bufio.Reader's internal buffer.
func ReaderResidue(pattern []byte) {
	big := make([]byte, 0, 64*1024)
	for len(big) < 64*1024 && len(pattern) > 0 {
		big = append(big, pattern...)
	}
	imagemeta.VerifSetResidue(big)
	jpeg.VerifSetResidue(big)
	isobmff.VerifSetResidue(big)
	imagemeta.VerifSetResidue(nil)
	jpeg.VerifSetResidue(nil)
	isobmff.VerifSetResidue(nil)
}

// SetDispatch selects assembly or portable kernels; returns false when asm is unavailable.
func SetDispatch(asm bool) bool {
	if asm && !transforms32.VerifHaveASM() {
		return false
	}
	transforms32.VerifSetDispatch(asm)
	return true
}

// GCOnly is the "gc" event of a history: two collections empty the pools (primary and victim
// caches) and the registries are dropped; unlike GCPoint the zone cache and whatever else
// survives a collection are left as they are.
func GCOnly() {
	runtime.GC()
	runtime.GC()
	exif2.VerifForget()
	imagehash.VerifForget()
	imagemeta.VerifForget()
	jpeg.VerifForget()
	isobmff.VerifForget()
}

// Residue modes (DESIGN §4 residue(p)).
const (
	ResNone      = 0 // leave the true residue of the history
	ResFF        = 1 // every pooled byte/field at its maximum, NaN pixels
	ResRandom    = 2
	ResPlausible = 3 // valid-looking tags with small and large offsets, date-like ASCII, finite pixels
)

var ResNames = []string{"history", "0xFF", "random", "plausible"}

type resRng struct{ s uint64 }

func (r *resRng) next() uint64 {
	r.s += 0x9e3779b97f4a7c15
	z := r.s
	z = (z ^ (z >> 30)) * 0xbf58476d1ce4e5b9
	z = (z ^ (z >> 27)) * 0x94d049bb133111eb
	return z ^ (z >> 31)
}

// SetResidue overwrites the content of every pooled object (the property's own "equivalently:
// all contents of the internal buffer pools").
func SetResidue(mode int, seed uint64) {
	if mode == ResNone {
		return
	}
	exif2.VerifSetResidue(func(v exif2.VerifBufferView) {
		r := &resRng{seed}
		switch mode {
		case ResFF:
			for i := range v.Scratch {
				v.Scratch[i] = 0xff
			}
			for i := range v.Tags {
				v.Tags[i] = exif2.Tag{ValueOffset: 0xffffffff, UnitCount: 0xffffffff, ID: 0xffff, Type: 0xff, Ifd: 0xff, IfdIndex: -1, ByteOrder: -1}
			}
			*v.Len, *v.Pos = uint32(len(v.Tags)), uint32(len(v.Tags)-1)
		case ResRandom:
			for i := range v.Scratch {
				v.Scratch[i] = byte(r.next())
			}
			for i := range v.Tags {
				x := r.next()
				v.Tags[i] = exif2.Tag{ValueOffset: uint32(x), UnitCount: uint32(x >> 32), ID: tag.ID(r.next()), Type: tag.Type(r.next() % 14), Ifd: ifds.IfdType(r.next() % 12), IfdIndex: int8(r.next() % 4), ByteOrder: utils.ByteOrder(int8(r.next() % 3))}
			}
			*v.Len, *v.Pos = uint32(r.next()%uint64(len(v.Tags)+1)), uint32(r.next()%uint64(len(v.Tags)))
		case ResPlausible:
			text := []byte("2019:07:14 09:41:33\x00+01:60\x00Canon\x00EOS 5D Mark IV\x00Secret Owner Name\x00123456789\x00")
			for i := range v.Scratch {
				v.Scratch[i] = text[i%len(text)]
			}
			off := uint32(8)
			for i := range v.Tags {
				typ := []tag.Type{tag.TypeASCII, tag.TypeShort, tag.TypeLong, tag.TypeRational, tag.TypeIfd, tag.TypeUndefined}[r.next()%6]
				if r.next()%3 == 0 {
					off += uint32(r.next() % 64)
				} else {
					off += uint32(r.next() % 100000)
				}
				v.Tags[i] = exif2.NewTag(tag.ID(0x0100+r.next()%0x9300), typ, uint32(1+r.next()%40), off, ifds.IfdType(1+r.next()%4), 0, utils.ByteOrder(1+r.next()%2))
			}
			*v.Len, *v.Pos = uint32(r.next()%uint64(len(v.Tags)+1)), 0
		}
	})
	exif2.VerifSetResidue(nil)
	imagehash.VerifSetResidue(func(f64 []float64, f32 []float32) {
		r := &resRng{seed ^ 0x5555}
		for i := range f64 {
			switch mode {
			case ResFF:
				f64[i] = math.NaN()
			case ResRandom:
				f64[i] = math.Float64frombits(r.next())
			default:
				f64[i] = float64(r.next()%65536) - 20000
			}
		}
		for i := range f32 {
			switch mode {
			case ResFF:
				f32[i] = float32(math.NaN())
			case ResRandom:
				f32[i] = math.Float32frombits(uint32(r.next()))
			default:
				f32[i] = float32(r.next()%65536) - 20000
			}
		}
	})
	imagehash.VerifSetResidue(nil)
	pat := make([]byte, 251)
	r := &resRng{seed ^ 0xaaaa}
	for i := range pat {
		switch mode {
		case ResFF:
			pat[i] = 0xff
		case ResRandom:
			pat[i] = byte(r.next())
		default:
			pat[i] = plausibleBytes[i%len(plausibleBytes)]
		}
	}
	ReaderResidue(pat)
}

// ZoneCacheLen returns the number of entries of the time-zone cache.
func ZoneCacheLen() int { return exif2.VerifZoneCacheLen() }

// ZoneCache returns a snapshot of the time-zone cache.
func ZoneCache() map[string]string { return exif2.VerifZoneCache() }

const plausibleBytes = "II*\x00\x08\x00\x00\x00\xff\xd8\xff\xe1Exif\x00\x00MM\x00*ftypcrx <x:xmpmeta "
