package harness

import (
	"io"
	"syscall"

	"github.com/evanoberholster/imagemeta"
	"github.com/evanoberholster/imagemeta/exif2"
	"github.com/evanoberholster/imagemeta/isobmff"
	"github.com/evanoberholster/imagemeta/jpeg"
	"github.com/evanoberholster/imagemeta/preview"
	"github.com/rs/zerolog"
)

// Logging configuration seam (C15): imagemeta.SetLogger is the existing seam; the process
// default is restored from the values the package variables had at process start.

var (
	defExif    = exif2.Logger
	defJpeg    = jpeg.Logger
	defIsobmff = isobmff.Logger
	defPreview = preview.Logger
)

// LogLevels in the order the cfg lane draws them; index 0 is the default (panic level).
var LogLevels = []zerolog.Level{zerolog.PanicLevel, zerolog.TraceLevel, zerolog.DebugLevel, zerolog.InfoLevel, zerolog.WarnLevel, zerolog.ErrorLevel, zerolog.FatalLevel, zerolog.Disabled}
var LogLevelNames = []string{"panic", "trace", "debug", "info", "warn", "error", "fatal", "disabled"}

// LogConfigure installs a logger through the library's public configuration call.
func LogConfigure(w io.Writer, level int) {
	imagemeta.SetLogger(w, LogLevels[level])
}

// LogDefault restores the process-start configuration.
func LogDefault() {
	exif2.Logger = defExif
	jpeg.Logger = defJpeg
	isobmff.Logger = defIsobmff
	preview.Logger = defPreview
}

// FdSizes returns the sizes of the files behind fd 1 and fd 2 and whether both are regular files
// (the orchestrator opens regular files as the worker's stdout/stderr so that bytes the library
// prints are attributed to the exact operation).
func FdSizes() (out, err int64, regular bool) {
	var s1, s2 syscall.Stat_t
	if syscall.Fstat(1, &s1) != nil || syscall.Fstat(2, &s2) != nil {
		return 0, 0, false
	}
	reg := s1.Mode&syscall.S_IFMT == syscall.S_IFREG && s2.Mode&syscall.S_IFMT == syscall.S_IFREG
	return s1.Size, s2.Size, reg
}
