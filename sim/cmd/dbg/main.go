// dbg: decode a hex string / file with a given entry point and print the canonical result
// (debugging aid, not used by the checks).
package main

import (
	"encoding/hex"
	"fmt"
	"os"
	"strings"

	"github.com/evanoberholster/imagemeta"
	"github.com/rs/zerolog"

	"verifsim/harness"
	"verifsim/world"
)

func main() {
	entry := os.Args[1]
	var data []byte
	if strings.HasPrefix(os.Args[2], "@") {
		data, _ = os.ReadFile(os.Args[2][1:])
	} else {
		data, _ = hex.DecodeString(os.Args[2])
	}
	if len(os.Args) > 3 {
		lv, _ := zerolog.ParseLevel(os.Args[3])
		imagemeta.SetLogger(os.Stderr, lv)
	}
	e := harness.EntryByName(entry)
	r := world.NewSimReader(&world.Device{}, data)
	res := harness.Invoke(e, &harness.Env{}, r)
	if res.Panic != nil {
		fmt.Println("PANIC", res.Panic.Value, res.Panic.Func)
		fmt.Println(res.Panic.Stack)
		return
	}
	z := harness.CanonAny("x", nil)
	_ = z
	for i, k := range res.Fields.K {
		v := res.Fields.V[i]
		if v != "0" && v != `""` && v != "zero" && v != "false" && v != "nil" {
			fmt.Println(k, "=", v)
		}
	}
	fmt.Println("err =", res.Err)
	fmt.Printf("device: calls=%d delivered=%d req=%d\n", r.Calls, r.Delivered, r.ReqBytes)
}
