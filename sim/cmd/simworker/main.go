// simworker: one OS process = one simulated world at a time; long-lived, many runs.
// Speaks only on fd 3 (progress pipe). fd 1 / fd 2 belong to the orchestrator (C15).
package main

import (
	"bufio"
	"encoding/json"
	"flag"
	"fmt"
	"os"
	"regexp"
	"runtime"
	"runtime/debug"
	"strings"
	"time"

	"verifsim/core"
	"verifsim/props"
)

var out *bufio.Writer

func emit(format string, a ...interface{}) {
	fmt.Fprintf(out, format, a...)
	out.WriteByte('\n')
	out.Flush()
}

func main() {
	prop := flag.String("prop", "", "property id")
	tier := flag.String("tier", "quick", "quick|thorough")
	seed := flag.Uint64("seed", 1, "VERIF_SEED")
	worker := flag.Int("worker", 0, "worker index")
	workers := flag.Int("workers", 1, "number of workers")
	budget := flag.Int("budget", 0, "wall budget in seconds (0 = none)")
	replay := flag.String("replay", "", "replay file: execute exactly that case")
	minim := flag.String("minimise", "", "replay file to minimise in-process; result written to -o")
	outPath := flag.String("o", "", "output path for -minimise")
	caseJSON := flag.String("case", "", "case JSON: execute exactly that case (solo confirmation)")
	digests := flag.String("digests", "", "file to append non-trivial run digests to")
	minBudget := flag.Int("minbudget", 400, "candidate budget for in-process minimisation")
	phase := flag.Int("phase", 0, "campaign phase to run")
	info := flag.String("info", "", "print property metadata as JSON and exit")
	from := flag.Uint64("from", 0, "resume: first run index (in -fromcamp)")
	fromCamp := flag.String("fromcamp", "", "resume: campaign to resume in (earlier ones are skipped)")
	plan := flag.Bool("plan", false, "with -case: generate the case, do not enter the library")
	hangProbe := flag.Int("hangprobe", 0, "solo: after this many seconds sample the stacks, report the looping library function as 'H <site>' and exit 3")
	kvPath := flag.String("kv", "", "key/value file exported by earlier phases")
	maxRuns := flag.Int("maxruns", 0, "stop each campaign after this many runs of this worker (determinism self-test)")
	runDigests := flag.String("rundigests", "", "file to write one 'campaign index digest' line per run to (determinism self-test)")
	flag.Parse()

	if *info != "" {
		printInfo(*info)
		return
	}
	f := os.NewFile(3, "progress")
	if f == nil {
		f = os.Stdout
	}
	if _, err := f.Stat(); err != nil {
		f = os.Stdout
	}
	out = bufio.NewWriter(f)
	debug.SetGCPercent(-1)
	debug.SetMemoryLimit(512 << 20)
	repo := props.RepoRoot()
	if *kvPath != "" {
		if b, err := os.ReadFile(*kvPath); err == nil {
			_ = json.Unmarshal(b, &props.KV)
		}
	}

	if *hangProbe > 0 {
		go hangProber(time.Duration(*hangProbe) * time.Second)
	}
	if *replay != "" || *caseJSON != "" || *minim != "" {
		solo(*replay, *caseJSON, *minim, *outPath, *tier, repo, *minBudget, *plan)
		return
	}

	p := props.Registry[*prop]
	if p == nil {
		emit("X unknown property %s", *prop)
		os.Exit(2)
	}
	if p.Setup != nil {
		if err := p.Setup(repo, *tier); err != nil {
			emit("X setup: %v", err)
			os.Exit(2)
		}
	}
	emit("R ready")
	var rdw *bufio.Writer
	if *runDigests != "" {
		if rf, err := os.Create(*runDigests); err == nil {
			rdw = bufio.NewWriter(rf)
			defer func() { rdw.Flush(); rf.Close() }()
		}
	}
	st := core.NewStats()
	seen := map[string]int{}
	distinct := map[uint64]struct{}{}
	scheds := map[uint64]struct{}{}
	totalW := 0
	for _, c := range p.Campaigns {
		if c.Phase == *phase {
			totalW += c.Weight
		}
	}
	start := time.Now()
	elapsedShare := 0
	sinceGC := 0
	for _, camp := range p.Campaigns {
		if camp.Phase != *phase {
			continue
		}
		n := camp.N(*tier, *seed)
		elapsedShare += camp.Weight
		var deadline time.Time
		if *budget > 0 && totalW > 0 {
			deadline = start.Add(time.Duration(float64(*budget) * float64(elapsedShare) / float64(totalW) * float64(time.Second)))
		}
		complete := true
		cnt := 0
		first := uint64(*worker)
		if *fromCamp != "" {
			if camp.Name != *fromCamp {
				continue
			}
			*fromCamp = ""
			for first < *from {
				first += uint64(*workers)
			}
			complete = false // the killed predecessor's runs are not in these stats
		}
		for idx := first; idx < n; idx += uint64(*workers) {
			if !deadline.IsZero() && cnt%8 == 0 && time.Now().After(deadline) {
				complete = false
				break
			}
			if *maxRuns > 0 && cnt >= *maxRuns {
				complete = false
				break
			}
			cnt++
			cs := &core.Case{Prop: p.ID, Campaign: camp.Name, Seed: *seed, Run: idx}
			emit("B %s %d", camp.Name, idx)
			t0 := time.Now()
			o, traces := props.Execute(p, cs, *tier, repo, st, false)
			if time.Since(t0) > 25*time.Millisecond {
				// a slow run usually means a large allocation: give the memory back so that the
				// next large allocation gets fresh zero pages instead of a multi-GiB memclr
				debug.FreeOSMemory()
				sinceGC = 0
			}
			if rdw != nil {
				v := "ok"
				if o.Viol != nil {
					v = o.Viol.Sig()
				}
				fmt.Fprintf(rdw, "%s %d %s %s\n", camp.Name, idx, o.Digest, v)
			}
			st.Runs++
			st.Campaigns[camp.Name]++
			st.Ticks += o.Ticks
			if o.Sched != 0 {
				scheds[o.Sched] = struct{}{}
			}
			if o.NonTrivial {
				st.NonTrivial++
				var d uint64
				fmt.Sscanf(o.Digest, "%x", &d)
				distinct[d] = struct{}{}
			}
			for k, v := range o.Exports {
				kb, _ := json.Marshal([2]string{k, v})
				emit("K %s", kb)
			}
			if o.Viol == nil {
				emit("E %s %d ok", camp.Name, idx)
			} else {
				emit("E %s %d viol", camp.Name, idx)
				sig := o.Viol.Sig()
				seen[sig]++
				st.C["viol:"+sig]++
				if seen[sig] == 1 && len(seen) <= 40 {
					full := &core.Case{Prop: p.ID, Campaign: camp.Name, Seed: *seed, Run: idx, Lanes: traces, ReplayAll: true}
					// a candidate may kill the process (the orchestrator then keeps the seed-based case)
					emit("m %s %d", camp.Name, idx)
					rf := minimise(p, full, o.Viol, *tier, repo, *minBudget)
					b, _ := json.Marshal(rf)
					emit("V %s", b)
				}
			}
			if len(st.Samples) < 3 && o.NonTrivial && idx%7 == uint64(*worker)%7 {
				full := &core.Case{Prop: p.ID, Campaign: camp.Name, Seed: *seed, Run: idx, Lanes: traces, ReplayAll: true}
				od, _ := props.Execute(p, full, *tier, repo, nil, true)
				st.Samples = append(st.Samples, fmt.Sprintf("campaign=%s run=%d: %s", camp.Name, idx, od.Desc))
			}
			if camp.Fresh {
				// one run per process: hand the rest of this campaign to a fresh worker
				b, _ := json.Marshal(st)
				emit("S %s", b)
				flushDigests(*digests, distinct, scheds)
				if rdw != nil {
					rdw.Flush()
				}
				emit("F %s %d", camp.Name, idx)
				os.Exit(0)
			}
			sinceGC++
			if sinceGC >= 256 {
				sinceGC = 0
				runtime.GC()
			}
		}
		if camp.Enumerated {
			st.Complete[camp.Name] = complete
		}
	}
	flushDigests(*digests, distinct, scheds)
	b, _ := json.Marshal(st)
	emit("S %s", b)
	emit("D done")
}

// hangProber locates a non-terminating loop: several stack samples of the goroutine that is
// inside the harness, intersected from the outermost frame; the deepest library function that
// is on the stack in every sample owns the loop.
func hangProber(after time.Duration) {
	time.Sleep(after)
	var common []string
	var blocked map[string]string
	for i := 0; i < 25; i++ {
		buf := make([]byte, 1<<20)
		n := runtime.Stack(buf, true)
		fr := libFrames(string(buf[:n]))
		b := blockedTasks(string(buf[:n]))
		if i == 0 {
			blocked = b
		} else {
			for g, st := range blocked {
				if b[g] != st {
					delete(blocked, g)
				}
			}
		}
		if i == 0 {
			common = fr
		} else {
			k := 0
			for k < len(common) && k < len(fr) && common[k] == fr[k] {
				k++
			}
			common = common[:k]
		}
		time.Sleep(17 * time.Millisecond)
	}
	site := "?"
	if len(common) > 0 {
		site = common[len(common)-1]
	}
	// a task of a multi-task world that sits in a blocking primitive in every sample: the stall
	// may be the simulator's (the orchestrator re-runs the case without the serialising scheduler)
	for g, st := range blocked {
		emit("W goroutine %s [%s]", g, st)
		break
	}
	emit("H %s", site)
	os.Exit(3)
}

var reGoHeader = regexp.MustCompile(`^goroutine (\d+) \[([^\],]+)`)

// blockedTasks returns, per task goroutine of the scheduler (world.(*Sched).Run on its stack),
// the blocking state the runtime reports for it, if any.
func blockedTasks(dump string) map[string]string {
	out := map[string]string{}
	for _, g := range strings.Split(dump, "\n\n") {
		if !strings.Contains(g, "verifsim/world.(*Sched).Run.func") {
			continue
		}
		m := reGoHeader.FindStringSubmatch(g)
		if m == nil {
			continue
		}
		switch st := m[2]; {
		case strings.HasPrefix(st, "chan "), st == "select", strings.HasPrefix(st, "sync."), strings.HasPrefix(st, "semacquire"), st == "IO wait":
			out[m[1]] = st
		}
	}
	return out
}

// libFrames returns the library functions on the stack of the goroutine that runs the harness,
// outermost first.
func libFrames(dump string) []string {
	const lib = "github.com/evanoberholster/imagemeta"
	for _, g := range strings.Split(dump, "\n\n") {
		if !strings.Contains(g, "verifsim/harness.") && !strings.Contains(g, "verifsim/props.") {
			continue
		}
		if strings.Contains(g, "hangProber") {
			continue
		}
		var fr []string
		for _, ln := range strings.Split(g, "\n") {
			if strings.HasPrefix(ln, lib) {
				f := strings.TrimPrefix(ln, lib)
				if i := strings.LastIndex(f, "("); i > 0 {
					f = f[:i]
				}
				fr = append(fr, f)
			}
		}
		// reverse: outermost first
		for i, j := 0, len(fr)-1; i < j; i, j = i+1, j-1 {
			fr[i], fr[j] = fr[j], fr[i]
		}
		if len(fr) > 0 {
			return fr
		}
	}
	return nil
}

func printInfo(id string) {
	p := props.Registry[id]
	if p == nil {
		fmt.Println("{}")
		return
	}
	phases := 0
	var camps, enum []string
	for _, c := range p.Campaigns {
		if c.Phase+1 > phases {
			phases = c.Phase + 1
		}
		camps = append(camps, c.Name)
		if c.Enumerated {
			enum = append(enum, c.Name)
		}
	}
	// per phase: the campaigns that follow a fresh-process campaign (determinism self-test)
	resume := map[string][]string{}
	for i, c := range p.Campaigns {
		if i > 0 && p.Campaigns[i-1].Fresh && p.Campaigns[i-1].Phase == c.Phase && !c.Fresh {
			k := fmt.Sprint(c.Phase)
			resume[k] = append(resume[k], c.Name)
		}
	}
	b, _ := json.Marshal(map[string]interface{}{
		"resume_after_fresh": resume,
		"id":                 p.ID, "level": p.Level, "rule": p.Rule, "quick_sec": p.QuickSec, "thorough_sec": p.ThoroughSec,
		"race": p.Race, "race_phases": p.RacePhases, "phase_budget": p.PhaseBudget, "hang_kind": p.HangKind, "procs": p.Procs, "workers": p.Workers, "run_timeout_sec": p.RunTimeoutSec, "sync_yields": p.SyncYields, "phases": phases,
		"assumptions": p.Assumptions, "components": p.Components, "campaigns": camps, "enumerated": enum,
	})
	fmt.Println(string(b))
}

// minimise shrinks a failing case in-process (recoverable violations only; fatal ones are
// minimised by the orchestrator, one process per candidate).
func minimise(p *props.Prop, cs *core.Case, v *core.Violation, tier, repo string, budget int) *core.ReplayFile {
	sig := v.Sig()
	t0 := time.Now()
	test := func(l map[string][]uint64) (bool, map[string][]uint64) {
		if time.Since(t0) > 6*time.Second {
			return false, l // time box: keep what we have
		}
		c2 := *cs
		c2.Lanes = l
		c2.ReplayAll = true
		o, tr := props.Execute(p, &c2, tier, repo, nil, false)
		return o.Viol != nil && o.Viol.Sig() == sig, tr
	}
	best, _ := core.Minimise(cs.Lanes, test, budget)
	c3 := *cs
	c3.Lanes = best
	c3.ReplayAll = true
	o, _ := props.Execute(p, &c3, tier, repo, nil, true)
	rf := &core.ReplayFile{Case: c3, Violation: o.Viol, Digest: o.Digest, Desc: o.Desc, Minimised: true}
	if o.Viol == nil || o.Viol.Sig() != sig {
		// minimiser lost the violation: fall back to the original case
		c3.Lanes = cs.Lanes
		o, _ = props.Execute(p, &c3, tier, repo, nil, true)
		rf = &core.ReplayFile{Case: c3, Violation: o.Viol, Digest: o.Digest, Desc: o.Desc, Minimised: false}
		if o.Viol == nil {
			rf.Violation = v
			rf.Note = "violation did not recur on in-process re-execution"
		}
	}
	if rf.Violation != nil {
		rf.Signature = rf.Violation.Sig()
	}
	return rf
}

// solo executes exactly one case in this fresh process and prints the outcome as "O <json>".
func solo(replay, caseJSON, minim, outPath, tier, repo string, minBudget int, plan bool) {
	var cs core.Case
	var rfIn *core.ReplayFile
	switch {
	case replay != "" || minim != "":
		path := replay
		if path == "" {
			path = minim
		}
		rf, err := core.ReadReplay(path)
		if err != nil {
			emit("X %v", err)
			os.Exit(2)
		}
		rfIn = rf
		cs = rf.Case
	default:
		if err := json.Unmarshal([]byte(caseJSON), &cs); err != nil {
			emit("X %v", err)
			os.Exit(2)
		}
	}
	p := props.Registry[cs.Prop]
	if p == nil {
		emit("X unknown property %s", cs.Prop)
		os.Exit(2)
	}
	if p.Setup != nil {
		if err := p.Setup(repo, tier); err != nil {
			emit("X setup: %v", err)
			os.Exit(2)
		}
	}
	if minim != "" && rfIn != nil && rfIn.Violation != nil {
		rf := minimise(p, &cs, rfIn.Violation, tier, repo, minBudget)
		if err := core.WriteReplay(outPath, rf); err != nil {
			emit("X %v", err)
			os.Exit(2)
		}
		emit("D done")
		return
	}
	if plan {
		d, e := props.Plan(p, &cs, tier, repo)
		b, _ := json.Marshal(map[string]interface{}{"desc": d, "entry": e})
		emit("P %s", b)
		emit("D done")
		return
	}
	emit("B %s %d", cs.Campaign, cs.Run)
	o, traces := props.Execute(p, &cs, tier, repo, nil, true)
	type soloOut struct {
		Outcome *core.Outcome       `json:"outcome"`
		Lanes   map[string][]uint64 `json:"lanes"`
	}
	b, _ := json.Marshal(soloOut{o, traces})
	emit("O %s", b)
	emit("D done")
}

func flushDigests(path string, distinct, scheds map[uint64]struct{}) {
	if path == "" {
		return
	}
	write := func(p string, set map[uint64]struct{}) {
		f, err := os.Create(p)
		if err != nil {
			return
		}
		w := bufio.NewWriter(f)
		var b [8]byte
		for d := range set {
			for i := 0; i < 8; i++ {
				b[i] = byte(d >> (8 * i))
			}
			w.Write(b[:])
		}
		w.Flush()
		f.Close()
	}
	write(path, distinct)
	if len(scheds) > 0 {
		write(path+".sched", scheds)
	}
}
