// simctl: orchestrator. Pure Go, does not import the library under test. Builds the worker from
// the current working tree of the repository on every check, fans out worker processes, reads
// their progress pipes, runs the watchdog, classifies worker deaths, confirms by replay in a fresh
// process, applies the known-findings file, writes replay files and evidence.
//
// Exit codes: 0 = property held on everything explored (possibly with KNOWN-FINDING lines);
// 1 = at least one VIOLATION line; 2 = the machinery itself failed.
package main

import (
	"bufio"
	"bytes"
	"encoding/json"
	"fmt"
	"os"
	"os/exec"
	"path/filepath"
	"regexp"
	"sort"
	"strconv"
	"strings"
	"sync"
	"syscall"
	"time"

	"verifsim/core"
	"verifsim/yieldinst"
)

type propInfo struct {
	ID            string            `json:"id"`
	Level         string            `json:"level"`
	Rule          string            `json:"rule"`
	QuickSec      int               `json:"quick_sec"`
	ThoroughSec   int               `json:"thorough_sec"`
	Race          bool              `json:"race"`
	RacePhases    []int             `json:"race_phases"`
	PhaseBudget   []int             `json:"phase_budget"`
	HangKind      string            `json:"hang_kind"`
	Procs         int               `json:"procs"`
	Workers       int               `json:"workers"`
	RunTimeoutSec int               `json:"run_timeout_sec"`
	SyncYields    bool              `json:"sync_yields"`
	Phases        int               `json:"phases"`
	Assumptions   []string          `json:"assumptions"`
	Components    map[string]string `json:"components"`
	Campaigns     []string          `json:"campaigns"`
	Enumerated    []string          `json:"enumerated"`
}

var (
	verifDir        = "/verif"
	repoDir         = "/repo"
	buildDir        string
	machineryFailed bool
	outMu           sync.Mutex
)

// outDir is where replay files of this run go (VERIF_OUT redirects evidence and replays, used
// when a check is pointed at a scratch copy of the repository).
func outDir() string {
	if v := os.Getenv("VERIF_OUT"); v != "" {
		return v
	}
	return filepath.Join(verifDir, "out")
}

func say(format string, a ...interface{}) {
	outMu.Lock()
	fmt.Printf(format+"\n", a...)
	outMu.Unlock()
}

func die2(format string, a ...interface{}) {
	say("MACHINERY-ERROR "+format, a...)
	os.Exit(2)
}

func main() {
	if len(os.Args) < 3 || os.Args[1] != "check" {
		fmt.Fprintln(os.Stderr, "usage: simctl check <ID> [--tier quick|thorough] [--replay file] [--workers n] [--budget sec]")
		os.Exit(2)
	}
	if v := os.Getenv("VERIF_DIR"); v != "" {
		verifDir = v
	}
	if v := os.Getenv("VERIF_REPO"); v != "" {
		repoDir = v
	}
	id := os.Args[2]
	tier := os.Getenv("VERIF_TIER")
	replay := ""
	workersOverride := 0
	budgetOverride := 0
	for i := 3; i < len(os.Args); i++ {
		switch os.Args[i] {
		case "--tier":
			i++
			tier = os.Args[i]
		case "--replay":
			i++
			replay = os.Args[i]
		case "--workers":
			i++
			workersOverride, _ = strconv.Atoi(os.Args[i])
		case "--budget":
			i++
			budgetOverride, _ = strconv.Atoi(os.Args[i])
		}
	}
	if tier == "" {
		tier = "quick"
	}
	seed := uint64(1)
	if v := os.Getenv("VERIF_SEED"); v != "" {
		if s, err := strconv.ParseUint(v, 10, 64); err == nil {
			seed = s
		}
	}
	start := time.Now()
	buildDir = filepath.Join(verifDir, ".build", id)
	if v := os.Getenv("VERIF_BUILD"); v != "" {
		buildDir = filepath.Join(v, id)
	}
	os.RemoveAll(buildDir)
	if err := os.MkdirAll(buildDir, 0o755); err != nil {
		die2("mkdir %s: %v", buildDir, err)
	}
	say("simctl: property=%s tier=%s VERIF_SEED=%d repo=%s", id, tier, seed, repoDir)

	bin := buildWorker(false)
	info := workerInfo(bin, id)
	var raceBin string
	syncNote := ""
	if info.SyncYields {
		// the property's worlds run on a scratch copy of the repository in which the library's
		// synchronisation operations are scheduling points (sim/yieldinst); when the rewritten copy
		// does not build, the unmodified tree is used and the evidence says so
		src := filepath.Join(buildDir, "yieldsrc")
		st, err := yieldinst.Instrument(repoDir, src, "github.com/evanoberholster/imagemeta")
		if err == nil {
			var b2, r2 string
			b2, err = buildWorkerFrom(false, src, "verif,verifyield", "simworker-sync")
			if err == nil && info.Race {
				r2, err = buildWorkerFrom(true, src, "verif,verifyield", "simworker-sync-race")
			}
			if err == nil {
				bin, raceBin = b2, r2
				syncNote = fmt.Sprintf("instrumented copy: %d files, %d scheduling points at synchronisation operations, %d lock acquisitions, %d once calls", st.Files, st.Yields, st.Locks, st.Onces)
				say("simctl: %s", syncNote)
			}
		}
		if err != nil {
			syncNote = "instrumented copy unavailable (" + firstLine(err.Error()) + "): scheduling points at device events only"
			say("NOTE %s", syncNote)
		}
	}
	if info.Race && raceBin == "" {
		raceBin = buildWorker(true)
	}
	kf := loadFindings(filepath.Join(verifDir, "known_findings.txt"))
	if !info.Race {
		// Address-space limit for the workers (inherited): an allocation of gigabytes declared by
		// a size field kills the worker at once (reported as a fatal violation after solo
		// confirmation) instead of costing seconds of page zeroing per run. The race detector
		// needs terabytes of address space, so race builds are not limited.
		lim := uint64(2 << 30)
		_ = syscall.Setrlimit(syscall.RLIMIT_AS, &syscall.Rlimit{Cur: lim, Max: lim})
	}

	if replay != "" {
		os.Exit(doReplay(bin, raceBin, info, replay, tier, kf))
	}

	if syncNote != "" {
		syncNote = "; " + syncNote
	}
	ck := &checker{id: id, tier: tier, seed: seed, bin: bin, raceBin: raceBin, syncNote: syncNote, info: info, kf: kf,
		stats: core.NewStats(), viol: map[string]*core.ReplayFile{}, violCount: map[string]int{}}
	ck.workers = 16
	if info.Workers > 0 {
		ck.workers = info.Workers
	}
	if workersOverride > 0 {
		ck.workers = workersOverride
	}
	ck.budget = info.QuickSec
	if tier == "thorough" {
		ck.budget = info.ThoroughSec
	}
	if budgetOverride > 0 {
		ck.budget = budgetOverride
	}
	ck.runTimeout = time.Duration(info.RunTimeoutSec) * time.Second
	if ck.runTimeout == 0 {
		ck.runTimeout = 10 * time.Second
	}

	// replay files of earlier runs of this check are stale
	if old, _ := filepath.Glob(filepath.Join(outDir(), "replays", id+"-*.json")); len(old) > 0 {
		for _, f := range old {
			os.Remove(f)
		}
	}
	// regression corpus first
	ck.regression()

	kv := map[string]string{}
	kvPath := filepath.Join(buildDir, "kv.json")
	for phase := 0; phase < info.Phases; phase++ {
		b, _ := json.Marshal(kv)
		os.WriteFile(kvPath, b, 0o644)
		budget := 0
		if phase == info.Phases-1 {
			budget = ck.budget
		}
		if len(info.PhaseBudget) == info.Phases {
			budget = ck.budget * info.PhaseBudget[phase] / 100
		}
		ck.runPhase(phase, kvPath, budget, kv)
	}
	code := ck.finish(time.Since(start))
	os.Exit(code)
}

// ---------------------------------------------------------------------------------------------
// build

func goEnv() []string {
	env := os.Environ()
	env = append(env, "GOFLAGS=-mod=mod", "GOPROXY=off", "GOSUMDB=off", "GOTOOLCHAIN=local", "CGO_ENABLED=1")
	return env
}

func buildWorker(race bool) string {
	name := "simworker"
	if race {
		name = "simworker-race"
	}
	out, err := buildWorkerFrom(race, repoDir, "verif", name)
	if err != nil {
		say("%s", err.Error())
		die2("worker build failed (race=%v)", race)
	}
	return out
}

func firstLine(s string) string {
	s = strings.TrimSpace(s)
	if i := strings.IndexByte(s, '\n'); i >= 0 {
		s = s[:i]
	}
	if len(s) > 200 {
		s = s[:200]
	}
	return s
}

// buildWorkerFrom builds the worker against the library source tree src with the given build tags.
func buildWorkerFrom(race bool, src, tags, name string) (string, error) {
	simDir := filepath.Join(verifDir, "sim")
	modSrc, err := os.ReadFile(filepath.Join(simDir, "go.mod"))
	if err != nil {
		die2("read go.mod: %v", err)
	}
	re := regexp.MustCompile(`(?m)^replace github.com/evanoberholster/imagemeta => .*$`)
	mod := re.ReplaceAll(modSrc, []byte("replace github.com/evanoberholster/imagemeta => "+src))
	modPath := filepath.Join(buildDir, name+".mod")
	if err := os.WriteFile(modPath, mod, 0o644); err != nil {
		die2("write modfile: %v", err)
	}
	sum, err := os.ReadFile(filepath.Join(repoDir, "go.sum"))
	if err != nil {
		die2("read repo go.sum: %v", err)
	}
	os.WriteFile(filepath.Join(buildDir, name+".sum"), sum, 0o644)
	out := filepath.Join(buildDir, name)
	args := []string{"build"}
	if race {
		args = append(args, "-race")
	}
	args = append(args, "-modfile="+modPath, "-tags", tags, "-o", out, "./cmd/simworker")
	cmd := exec.Command("go", args...)
	cmd.Dir = simDir
	cmd.Env = goEnv()
	var buf bytes.Buffer
	cmd.Stdout = &buf
	cmd.Stderr = &buf
	t0 := time.Now()
	if err := cmd.Run(); err != nil {
		return "", fmt.Errorf("%s\n%v", buf.String(), err)
	}
	say("simctl: built worker %s (race=%v) from %s in %.1fs", name, race, src, time.Since(t0).Seconds())
	return out, nil
}

func workerInfo(bin, id string) *propInfo {
	cmd := exec.Command(bin, "-info", id)
	cmd.Env = append(os.Environ(), "VERIF_REPO="+repoDir)
	b, err := cmd.Output()
	if err != nil {
		die2("worker -info failed: %v", err)
	}
	var pi propInfo
	if err := json.Unmarshal(b, &pi); err != nil {
		die2("worker -info: %v: %s", err, b)
	}
	if pi.ID == "" {
		die2("unknown property %s", id)
	}
	return &pi
}

// ---------------------------------------------------------------------------------------------
// known findings

type finding struct {
	kind string // known | fixed
	prop string
	sig  string
	text string
	line string
}

func loadFindings(path string) []finding {
	b, err := os.ReadFile(path)
	if err != nil {
		return nil
	}
	var out []finding
	for _, ln := range strings.Split(string(b), "\n") {
		ln = strings.TrimSpace(ln)
		if ln == "" || strings.HasPrefix(ln, "#") {
			continue
		}
		var f finding
		f.line = ln
		switch {
		case strings.HasPrefix(ln, "known:"):
			f.kind = "known"
			ln = strings.TrimSpace(ln[len("known:"):])
		case strings.HasPrefix(ln, "fixed:"):
			f.kind = "fixed"
			ln = strings.TrimSpace(ln[len("fixed:"):])
		default:
			continue
		}
		var rest []string
		for _, tok := range strings.Fields(ln) {
			switch {
			case strings.HasPrefix(tok, "property=") && f.prop == "":
				f.prop = tok[len("property="):]
			case strings.HasPrefix(tok, "sig=") && f.sig == "":
				f.sig = tok[len("sig="):]
			default:
				rest = append(rest, tok)
			}
		}
		f.text = strings.Join(rest, " ")
		out = append(out, f)
	}
	return out
}

func knownFor(kf []finding, sig string) *finding {
	for i := range kf {
		if kf[i].kind == "known" && kf[i].sig == sig {
			return &kf[i]
		}
	}
	return nil
}

// ---------------------------------------------------------------------------------------------
// checker

type checker struct {
	id, tier   string
	seed       uint64
	bin        string
	raceBin    string
	syncNote   string // how the library was instrumented for scheduling points (C05)
	info       *propInfo
	kf         []finding
	workers    int
	budget     int
	runTimeout time.Duration

	mu               sync.Mutex
	stats            *core.Stats
	viol             map[string]*core.ReplayFile // by signature
	violCount        map[string]int
	watchdogKills    int
	hangKills        int
	aborted          bool
	procs            map[int]*exec.Cmd
	hangNotes        []string
	oomDeaths        int
	unconfirmedKills int
	knownSeen        map[string]bool
	regressionRan    int
}

type workerSpec struct {
	idx      int
	from     uint64
	fromCamp string
	phase    int
	kv       string
	budget   int
	race     bool
	procs    int
}

func (ck *checker) workerEnv(race bool, procs int, tag string) []string {
	env := append(os.Environ(), "VERIF_REPO="+repoDir, "TZ=UTC")
	if procs <= 0 {
		procs = 1
	}
	env = append(env, fmt.Sprintf("GOMAXPROCS=%d", procs))
	if race {
		env = append(env, "GORACE=halt_on_error=1 exitcode=66 atexit_sleep_ms=0")
	}
	return env
}

type lastRun struct {
	camp string
	idx  uint64
	open bool
	min  bool // the worker is minimising the violation of this run
	t    time.Time
}

// runWorker runs one worker process to completion, restarting it after confirmed fatal runs.
func (ck *checker) runWorker(spec workerSpec, kvOut map[string]string) {
	skip := map[string]bool{} // "camp idx" runs to skip after a confirmed fatal/hang
	for attempt := 0; attempt < 200; attempt++ {
		ck.mu.Lock()
		ab := ck.aborted
		ck.mu.Unlock()
		if ab {
			return
		}
		done, last, reason := ck.runWorkerOnce(spec, kvOut, skip)
		if done {
			return
		}
		if reason == "fresh" {
			// a fresh-process campaign: the next run of this shard gets a new worker
			spec.from = last.idx + 1
			spec.fromCamp = last.camp
			attempt--
			continue
		}
		ck.mu.Lock()
		ab = ck.aborted
		ck.mu.Unlock()
		if ab && reason != "watchdog" {
			return
		}
		if reason == "watchdog" {
			ck.mu.Lock()
			ck.hangKills++
			n := ck.hangKills
			if n >= 6 && !ck.aborted {
				ck.aborted = true
				say("NOTE %d watchdog kills: exploration aborted early, reporting what was found", n)
				for _, c := range ck.procs {
					if c.Process != nil {
						syscall.Kill(-c.Process.Pid, syscall.SIGKILL)
					}
				}
			}
			ck.mu.Unlock()
			if n > 6 {
				return
			}
		}
		if !last.open && last.min {
			// died (or stalled) while minimising a recoverable violation: keep the seed-based case
			cs := core.Case{Prop: ck.id, Campaign: last.camp, Seed: ck.seed, Run: last.idx}
			out, lanes, ended, _ := ck.soloRun(&cs, "", 3*ck.runTimeout, spec.race, spec.procs)
			if ended == "returned" && out != nil && out.Viol != nil {
				full := cs
				full.Lanes = lanes
				full.ReplayAll = true
				ck.addViolation(&core.ReplayFile{Case: full, Violation: out.Viol, Digest: out.Digest, Desc: out.Desc, Note: "not minimised: a minimisation candidate killed the worker"})
			}
			spec.from = last.idx + 1
			spec.fromCamp = last.camp
			continue
		}
		if !last.open {
			ck.mu.Lock()
			machineryFailed = true
			ck.mu.Unlock()
			say("MACHINERY-ERROR worker %d died outside a run (%s); see %s", spec.idx, reason, buildDir)
			return
		}
		// attribute to the run whose BEGIN has no END; confirm solo
		cs := core.Case{Prop: ck.id, Campaign: last.camp, Seed: ck.seed, Run: last.idx}
		if pt, err := os.ReadFile(filepath.Join(buildDir, fmt.Sprintf("p%d-w%d.stderr", spec.phase, spec.idx))); err == nil && bytes.Contains(pt, []byte("out of memory")) {
			reason += " (out of memory)"
		}
		ck.confirmDeath(cs, reason, spec)
		skip[fmt.Sprintf("%s %d", last.camp, last.idx)] = true
		spec.from = last.idx + 1 // resume after the fatal run (worker skips to its next own index)
		spec.fromCamp = last.camp
		_ = attempt
	}
	say("MACHINERY-ERROR worker %d restarted too often", spec.idx)
	machineryFailed = true
}

func (ck *checker) runWorkerOnce(spec workerSpec, kvOut map[string]string, skip map[string]bool) (done bool, last lastRun, reason string) {
	bin := ck.bin
	if spec.race {
		bin = ck.raceBin
	}
	tag := fmt.Sprintf("p%d-w%d", spec.phase, spec.idx)
	args := []string{"-prop", ck.id, "-tier", ck.tier, "-seed", fmt.Sprint(ck.seed), "-worker", fmt.Sprint(spec.idx),
		"-workers", fmt.Sprint(ck.workers), "-phase", fmt.Sprint(spec.phase), "-kv", spec.kv, "-budget", fmt.Sprint(spec.budget),
		"-from", fmt.Sprint(spec.from), "-fromcamp", spec.fromCamp, "-digests", filepath.Join(buildDir, fmt.Sprintf("digests-%s-%d.bin", tag, spec.from))}
	cmd := exec.Command(bin, args...)
	cmd.Env = ck.workerEnv(spec.race, spec.procs, tag)
	so, _ := os.OpenFile(filepath.Join(buildDir, tag+".stdout"), os.O_CREATE|os.O_WRONLY|os.O_APPEND, 0o644)
	se, _ := os.OpenFile(filepath.Join(buildDir, tag+".stderr"), os.O_CREATE|os.O_WRONLY|os.O_TRUNC, 0o644)
	defer so.Close()
	defer se.Close()
	cmd.Stdout = so
	cmd.Stderr = se
	pr, pw, err := os.Pipe()
	if err != nil {
		die2("pipe: %v", err)
	}
	cmd.ExtraFiles = []*os.File{pw}
	cmd.SysProcAttr = &syscall.SysProcAttr{Setpgid: true}
	if err := cmd.Start(); err != nil {
		die2("start worker: %v", err)
	}
	pw.Close()
	ck.mu.Lock()
	if ck.procs == nil {
		ck.procs = map[int]*exec.Cmd{}
	}
	ck.procs[spec.idx] = cmd
	ck.mu.Unlock()
	defer func() {
		ck.mu.Lock()
		delete(ck.procs, spec.idx)
		ck.mu.Unlock()
	}()
	var lmu sync.Mutex
	last = lastRun{t: time.Now()}
	killed := false
	stopWatch := make(chan struct{})
	go func() {
		tk := time.NewTicker(200 * time.Millisecond)
		defer tk.Stop()
		for {
			select {
			case <-stopWatch:
				return
			case <-tk.C:
				lmu.Lock()
				limit := ck.runTimeout
				if !last.open {
					limit = 120 * time.Second // setup / between runs
				}
				over := time.Since(last.t) > limit
				lmu.Unlock()
				if over {
					lmu.Lock()
					killed = true
					lmu.Unlock()
					syscall.Kill(-cmd.Process.Pid, syscall.SIGKILL)
					return
				}
			}
		}
	}()
	sc := bufio.NewScanner(pr)
	sc.Buffer(make([]byte, 1<<20), 64<<20)
	sawDone, sawFresh := false, false
	for sc.Scan() {
		ln := sc.Text()
		if len(ln) < 2 {
			continue
		}
		switch ln[0] {
		case 'B':
			var camp string
			var idx uint64
			fmt.Sscanf(ln[2:], "%s %d", &camp, &idx)
			lmu.Lock()
			last = lastRun{camp: camp, idx: idx, open: true, t: time.Now()}
			lmu.Unlock()
		case 'E':
			lmu.Lock()
			last.open = false
			last.t = time.Now()
			lmu.Unlock()
		case 'm':
			lmu.Lock()
			last.min = true
			last.t = time.Now()
			lmu.Unlock()
		case 'K':
			var kvp [2]string
			if json.Unmarshal([]byte(ln[2:]), &kvp) == nil {
				ck.mu.Lock()
				kvOut[kvp[0]] = kvp[1]
				ck.mu.Unlock()
			}
		case 'V':
			var rf core.ReplayFile
			if err := json.Unmarshal([]byte(ln[2:]), &rf); err == nil {
				ck.addViolation(&rf)
			}
			lmu.Lock()
			last.min = false
			last.t = time.Now()
			lmu.Unlock()
		case 'S':
			var st core.Stats
			if err := json.Unmarshal([]byte(ln[2:]), &st); err == nil {
				ck.mu.Lock()
				ck.stats.Merge(&st)
				for k, v := range st.C {
					if strings.HasPrefix(k, "viol:") {
						ck.violCount[k[5:]] += int(v)
					}
				}
				ck.mu.Unlock()
			}
		case 'F':
			sawFresh = true
		case 'D':
			sawDone = true
		case 'X':
			say("MACHINERY-ERROR worker %d: %s", spec.idx, ln[2:])
			machineryFailed = true
		case 'R':
			lmu.Lock()
			last.t = time.Now()
			lmu.Unlock()
		}
	}
	close(stopWatch)
	pr.Close()
	werr := cmd.Wait()
	lmu.Lock()
	defer lmu.Unlock()
	if sawDone && werr == nil {
		return true, last, ""
	}
	if sawFresh && werr == nil && !last.open {
		return false, last, "fresh"
	}
	if killed {
		reason = "watchdog"
	} else if werr != nil {
		reason = werr.Error()
	} else {
		reason = "exited without completing"
	}
	return false, last, reason
}

func (ck *checker) runPhase(phase int, kvPath string, budget int, kvOut map[string]string) {
	var wg sync.WaitGroup
	race := false
	for _, rp := range ck.info.RacePhases {
		if rp == phase {
			race = true
		}
	}
	for w := 0; w < ck.workers; w++ {
		wg.Add(1)
		spec := workerSpec{idx: w, phase: phase, kv: kvPath, budget: budget, race: race, procs: ck.info.Procs}
		if race {
			// the race world runs the same schedules at several GOMAXPROCS values
			spec.procs = []int{1, 4, 16}[w%3]
		}
		go func() {
			defer wg.Done()
			ck.runWorker(spec, kvOut)
		}()
	}
	wg.Wait()
}

func sanitize(s string) string {
	s = strings.Map(func(r rune) rune {
		if r == ' ' || r == '\t' || r == '\n' {
			return '_'
		}
		return r
	}, s)
	return s
}

func (ck *checker) addViolation(rf *core.ReplayFile) {
	if rf.Violation == nil {
		return
	}
	sig := sanitize(rf.Violation.Sig())
	rf.Signature = sig
	ck.mu.Lock()
	defer ck.mu.Unlock()
	if old, ok := ck.viol[sig]; ok {
		// keep the smaller replay
		if laneSize(rf.Case.Lanes) >= laneSize(old.Case.Lanes) {
			return
		}
	}
	ck.viol[sig] = rf
}

func laneSize(m map[string][]uint64) int {
	n := 0
	for _, v := range m {
		n += len(v)
		for _, x := range v {
			if x != 0 {
				n++
			}
		}
	}
	return n
}

// soloRun executes one case in a fresh process and returns its outcome (nil if the process died
// or timed out), plus how it ended.
func (ck *checker) soloRun(cs *core.Case, replayPath string, timeout time.Duration, race bool, procs int) (out *core.Outcome, lanes map[string][]uint64, ended string, stderrTail string) {
	return ck.soloRunEnv(cs, replayPath, timeout, race, procs, nil)
}

func (ck *checker) soloRunEnv(cs *core.Case, replayPath string, timeout time.Duration, race bool, procs int, extraEnv []string) (out *core.Outcome, lanes map[string][]uint64, ended string, stderrTail string) {
	bin := ck.bin
	if race {
		bin = ck.raceBin
	}
	var args []string
	if replayPath != "" {
		args = []string{"-replay", replayPath, "-tier", ck.tier}
	} else {
		b, _ := json.Marshal(cs)
		args = []string{"-case", string(b), "-tier", ck.tier}
	}
	if ck.info.Phases > 1 {
		args = append(args, "-kv", filepath.Join(buildDir, "kv.json"))
	}
	if hp := int(timeout.Seconds()) - 2; hp >= 1 {
		args = append(args, "-hangprobe", fmt.Sprint(hp))
	}
	cmd := exec.Command(bin, args...)
	tag := fmt.Sprintf("solo-%d", time.Now().UnixNano())
	cmd.Env = ck.workerEnv(race, procs, tag)
	cmd.Env = append(cmd.Env, extraEnv...)
	// fd 1 and fd 2 of every worker are regular files owned by the orchestrator (C15 attributes
	// bytes printed by the library to the exact operation by their sizes)
	soPath, sePath := filepath.Join(buildDir, tag+".stdout"), filepath.Join(buildDir, tag+".stderr")
	so, _ := os.OpenFile(soPath, os.O_CREATE|os.O_WRONLY|os.O_TRUNC, 0o644)
	se, _ := os.OpenFile(sePath, os.O_CREATE|os.O_WRONLY|os.O_TRUNC, 0o644)
	defer func() {
		so.Close()
		se.Close()
		os.Remove(soPath)
		os.Remove(sePath)
	}()
	cmd.Stdout = so
	cmd.Stderr = se
	pr, pw, _ := os.Pipe()
	cmd.ExtraFiles = []*os.File{pw}
	cmd.SysProcAttr = &syscall.SysProcAttr{Setpgid: true}
	if err := cmd.Start(); err != nil {
		return nil, nil, "start: " + err.Error(), ""
	}
	pw.Close()
	// on timeout ask the runtime for a goroutine dump (SIGQUIT) so that a hang can be located,
	// then kill
	timer := time.AfterFunc(timeout, func() {
		syscall.Kill(-cmd.Process.Pid, syscall.SIGQUIT)
		time.AfterFunc(3*time.Second, func() { syscall.Kill(-cmd.Process.Pid, syscall.SIGKILL) })
	})
	var outLine, hangSite, blockedIn string
	sc := bufio.NewScanner(pr)
	sc.Buffer(make([]byte, 1<<20), 64<<20)
	for sc.Scan() {
		ln := sc.Text()
		if strings.HasPrefix(ln, "O ") {
			outLine = ln[2:]
		}
		if strings.HasPrefix(ln, "H ") {
			hangSite = ln[2:]
		}
		if strings.HasPrefix(ln, "W ") {
			blockedIn = ln[2:]
		}
	}
	pr.Close()
	werr := cmd.Wait()
	fired := !timer.Stop()
	tailb, _ := os.ReadFile(sePath)
	tail := string(tailb)
	if len(tail) > 12000 {
		tail = tail[:12000]
	}
	if outLine != "" {
		var sout struct {
			Outcome *core.Outcome       `json:"outcome"`
			Lanes   map[string][]uint64 `json:"lanes"`
		}
		if json.Unmarshal([]byte(outLine), &sout) == nil {
			return sout.Outcome, sout.Lanes, "returned", tail
		}
	}
	if hangSite != "" {
		if blockedIn != "" {
			tail = "BLOCKED " + blockedIn + "\n" + tail
		}
		return nil, nil, "timeout", "HANGSITE " + hangSite + "\n" + tail
	}
	if fired {
		return nil, nil, "timeout", tail
	}
	if werr != nil {
		return nil, nil, "died: " + werr.Error(), tail
	}
	return nil, nil, "no outcome", tail
}

var reFatal = regexp.MustCompile(`(?m)^(fatal error: .*|panic: .*|SIGSEGV.*|unexpected fault address.*|runtime: .*)$`)
var reLibFrame = regexp.MustCompile(`(?m)^github\.com/evanoberholster/imagemeta([^\s(]*(?:\([^)]*\))?[^\s(]*)\(`)

// classifyCrash derives (site) from the runtime's crash output on fd 2.
func classifyCrash(stderr string) (class, site string) {
	if strings.HasPrefix(stderr, "HANGSITE ") {
		ln := stderr[len("HANGSITE "):]
		if i := strings.Index(ln, "\n"); i >= 0 {
			ln = ln[:i]
		}
		return "hang", ln
	}
	class = "unknown"
	if m := reFatal.FindString(stderr); m != "" {
		class = m
		if i := strings.Index(class, "["); i > 0 {
			class = class[:i]
		}
		class = strings.TrimSpace(class)
		var sb strings.Builder
		for _, c := range class {
			if c >= '0' && c <= '9' {
				continue
			}
			sb.WriteRune(c)
			if sb.Len() > 60 {
				break
			}
		}
		class = sb.String()
	}
	if strings.Contains(stderr, "DATA RACE") {
		class = "DATA RACE"
	}
	if m := reLibFrame.FindStringSubmatch(stderr); m != nil {
		site = m[1]
	} else {
		site = "?"
	}
	return
}

// confirmDeath re-executes exactly the run that was open when a worker died, alone.
func (ck *checker) confirmDeath(cs core.Case, reason string, spec workerSpec) {
	timeout := 3 * ck.runTimeout
	out, lanes, ended, tail := ck.soloRun(&cs, "", timeout, spec.race, spec.procs)
	switch {
	case ended == "returned":
		if reason == "watchdog" {
			// finished when alone with 3x the budget: a slow run on a loaded machine, never a
			// violation (a genuine hang is deterministic here and must reproduce alone). Recorded in
			// the evidence; more than a handful means the watchdog budget is wrong for this machine.
			ck.mu.Lock()
			ck.unconfirmedKills++
			n := ck.unconfirmedKills
			ck.hangNotes = append(ck.hangNotes, fmt.Sprintf("watchdog killed worker %d in run %s/%d but the run finishes alone (slow under load, not a hang)", spec.idx, cs.Campaign, cs.Run))
			ck.mu.Unlock()
			if n > 8 {
				say("MACHINERY-ERROR %d watchdog kills of runs that finish alone: the per-run budget does not fit this machine", n)
				machineryFailed = true
			}
			if out != nil && out.Viol != nil {
				full := cs
				full.Lanes = lanes
				full.ReplayAll = true
				ck.addViolation(&core.ReplayFile{Case: full, Violation: out.Viol, Digest: out.Digest, Desc: out.Desc})
			}
			return
		}
		// the worker died but the run alone is fine: if it reports a violation take that, else machinery
		if out != nil && out.Viol != nil {
			full := cs
			full.Lanes = lanes
			full.ReplayAll = true
			ck.addViolation(&core.ReplayFile{Case: full, Violation: out.Viol, Digest: out.Digest, Desc: out.Desc})
			return
		}
		if strings.Contains(reason, "out of memory") {
			// the long-lived worker ran into its address-space limit in this run and the run fits
			// when alone: an allocation of hundreds of megabytes, which is C14's subject (C14's own
			// runs measure it); not a crash of the library and not a failure of the machinery
			ck.mu.Lock()
			ck.oomDeaths++
			ck.hangNotes = append(ck.hangNotes, fmt.Sprintf("run %s/%d exhausted the pool worker's 2 GiB address space and passes alone (allocation size is C14's subject)", cs.Campaign, cs.Run))
			ck.mu.Unlock()
			return
		}
		say("MACHINERY-ERROR worker %d died (%s) in run %s/%d but the run passes alone", spec.idx, reason, cs.Campaign, cs.Run)
		machineryFailed = true
	case ended == "timeout":
		ck.mu.Lock()
		ck.watchdogKills++
		ck.mu.Unlock()
		_, hsite := classifyCrash(tail)
		v := &core.Violation{Prop: "C02", Kind: "hang", Entry: cs.Campaign, Site: hsite, Detail: fmt.Sprintf("run did not finish within %v alone (3x watchdog); goroutine dump:\n%s", timeout, tail)}
		full, desc := ck.describeFatal(cs, spec)
		if desc.entry != "" {
			v.Entry = desc.entry
		}
		rf := &core.ReplayFile{Case: full, Violation: v, Desc: desc.text, Note: "hang confirmed by solo re-execution"}
		if ck.id == "C02" {
			v.Prop = "C02"
			ck.addViolation(rf)
		} else if ck.info.HangKind != "" {
			if strings.Contains(tail, "\nBLOCKED ") && ck.stallIsArtefact(&cs, timeout, spec.race) {
				return
			}
			v.Prop, v.Kind = ck.id, ck.info.HangKind
			ck.addViolation(rf)
		} else {
			// hangs are attributed to C02 (DESIGN §5 C02); recorded as a note under other checks
			ck.mu.Lock()
			ck.hangNotes = append(ck.hangNotes, fmt.Sprintf("run %s/%d hangs (attributed to C02): %s", cs.Campaign, cs.Run, desc.text))
			ck.mu.Unlock()
		}
	default:
		class, site := classifyCrash(tail)
		kind := "fatal"
		if class == "DATA RACE" {
			kind = "race"
			site = raceSite(tail)
		}
		v := &core.Violation{Prop: ck.id, Kind: kind, Entry: cs.Campaign, Site: site + "/" + class, Detail: tail}
		full, desc := ck.describeFatal(cs, spec)
		if desc.entry != "" {
			v.Entry = desc.entry
		}
		ck.addViolation(&core.ReplayFile{Case: full, Violation: v, Desc: desc.text, Note: "worker process killed; confirmed by solo re-execution (" + ended + ")"})
	}
}

// stallIsArtefact is consulted when the stalled run's own stack samples show a task sitting in a
// blocking primitive the whole time (tasks that spin - a livelock, a corrupted shared reader, a
// lock cycle between intercepted mutexes - are running, and are reported without further ado).
// It re-executes a run that does not finish under the serialising scheduler with
// the scheduler switched off (the tasks run freely, in parallel, on four processors). A run that
// finishes that way did not deadlock or spin: one of its tasks blocked on a primitive the
// simulator does not intercept (a channel, a condition variable, a WaitGroup shared between
// calls) while it held the baton, which is a limit of the simulator and not a defect of the
// library. It is recorded as a note and not reported. A genuine deadlock that needs this very
// interleaving is missed that way; a false alarm is not raised.
func (ck *checker) stallIsArtefact(cs *core.Case, timeout time.Duration, race bool) bool {
	_, _, ended, _ := ck.soloRunEnv(cs, "", timeout, race, 4, []string{"VERIF_FREERUN=1"})
	ck.mu.Lock()
	if ended == "returned" {
		ck.hangNotes = append(ck.hangNotes, fmt.Sprintf("run %s/%d stalls under the serialising scheduler but finishes when its tasks run freely in parallel: a task blocked with the baton in hand on a primitive the simulator does not intercept (simulator artefact, not reported)", cs.Campaign, cs.Run))
	}
	ck.mu.Unlock()
	return ended == "returned"
}

var reRaceFn = regexp.MustCompile(`(?m)^\s+github\.com/evanoberholster/imagemeta([^\s(]*(?:\([^)]*\))?[^\s(]*)\(`)

func raceSite(report string) string {
	ms := reRaceFn.FindAllStringSubmatch(report, -1)
	seen := map[string]bool{}
	var fns []string
	for _, m := range ms {
		if !seen[m[1]] {
			seen[m[1]] = true
			fns = append(fns, m[1])
		}
		if len(fns) == 2 {
			break
		}
	}
	sort.Strings(fns)
	return strings.Join(fns, "+")
}

type fatalDesc struct{ text, entry string }

// describeFatal obtains the lane traces and description of a run that kills its process, by
// asking a fresh worker to only *plan* it (-plan: generate the case, do not execute the library).
func (ck *checker) describeFatal(cs core.Case, spec workerSpec) (core.Case, fatalDesc) {
	b, _ := json.Marshal(cs)
	args := []string{"-case", string(b), "-tier", ck.tier, "-plan"}
	if ck.info.Phases > 1 {
		args = append(args, "-kv", filepath.Join(buildDir, "kv.json"))
	}
	cmd := exec.Command(ck.bin, args...)
	cmd.Env = ck.workerEnv(false, 1, "plan")
	pr, pw, _ := os.Pipe()
	cmd.ExtraFiles = []*os.File{pw}
	if err := cmd.Start(); err != nil {
		return cs, fatalDesc{}
	}
	pw.Close()
	var fd fatalDesc
	full := cs
	sc := bufio.NewScanner(pr)
	sc.Buffer(make([]byte, 1<<20), 64<<20)
	for sc.Scan() {
		ln := sc.Text()
		if strings.HasPrefix(ln, "P ") {
			var po struct {
				Desc  string `json:"desc"`
				Entry string `json:"entry"`
			}
			if json.Unmarshal([]byte(ln[2:]), &po) == nil {
				fd.text, fd.entry = po.Desc, po.Entry
			}
		}
	}
	pr.Close()
	cmd.Wait()
	return full, fd
}

// hangViolation builds the violation for a run that does not finish: C02's hang, or this
// property's own stall kind.
func (ck *checker) hangViolation(entry, site, detail string) *core.Violation {
	if ck.info.HangKind != "" {
		return &core.Violation{Prop: ck.id, Kind: ck.info.HangKind, Entry: entry, Site: site, Detail: detail}
	}
	return &core.Violation{Prop: "C02", Kind: "hang", Entry: entry, Site: site, Detail: detail}
}

// regression re-executes the committed replays of this property before any seeded exploration.
func (ck *checker) regression() {
	ck.knownSeen = map[string]bool{}
	for _, sub := range []string{"fixed", "known"} {
		files, _ := filepath.Glob(filepath.Join(verifDir, "replays", sub, ck.id+"-*.json"))
		sort.Strings(files)
		for _, f := range files {
			rf, err := core.ReadReplay(f)
			if err != nil {
				say("MACHINERY-ERROR unreadable replay %s: %v", f, err)
				machineryFailed = true
				continue
			}
			ck.regressionRan++
			timeout := ck.runTimeout
			if rf.Violation != nil && rf.Violation.Kind == "hang" {
				timeout = 5 * time.Second
			}
			race := rf.Violation != nil && rf.Violation.Kind == "race"
			procs := ck.info.Procs
			out, lanes, ended, tail := ck.soloRun(&rf.Case, f, timeout, race && ck.raceBin != "", procs)
			var v *core.Violation
			switch {
			case ended == "returned" && out != nil:
				v = out.Viol
			case ended == "timeout":
				_, hsite := classifyCrash(tail)
				v = ck.hangViolation(rf.Violation.Entry, hsite, "regression replay did not finish")
			case ended == "returned":
			default:
				class, site := classifyCrash(tail)
				kind := "fatal"
				if class == "DATA RACE" {
					kind, site = "race", raceSite(tail)
				}
				entry := ""
				if rf.Violation != nil {
					entry = rf.Violation.Entry
				}
				v = &core.Violation{Prop: ck.id, Kind: kind, Entry: entry, Site: site + "/" + class, Detail: tail}
			}
			if v == nil {
				if sub == "known" {
					say("NOTE known-finding replay %s no longer fails", filepath.Base(f))
				}
				continue
			}
			cs := rf.Case
			if lanes != nil {
				cs.Lanes = lanes
				cs.ReplayAll = true
			}
			desc := rf.Desc
			if out != nil && out.Desc != "" {
				desc = out.Desc
			}
			ck.addViolation(&core.ReplayFile{Case: cs, Violation: v, Desc: desc, Note: "regression corpus: " + filepath.Base(f)})
		}
	}
}

// finish confirms, classifies and reports violations; writes evidence; returns the exit code.
func (ck *checker) finish(wall time.Duration) int {
	sigs := make([]string, 0, len(ck.viol))
	for s := range ck.viol {
		sigs = append(sigs, s)
	}
	sort.Strings(sigs)
	os.MkdirAll(filepath.Join(outDir(), "replays"), 0o755)
	nViol := 0
	var knownSeen []string
	for _, sig := range sigs {
		rf := ck.viol[sig]
		name := fmt.Sprintf("%s-%08x.json", ck.id, uint32(hash32(sig)))
		path := filepath.Join(outDir(), "replays", name)
		rf.Signature = sig
		if err := core.WriteReplay(path, rf); err != nil {
			say("MACHINERY-ERROR cannot write replay %s: %v", path, err)
			machineryFailed = true
		}
		// confirm recoverable violations by replaying the file in a fresh process
		if rf.Violation.Kind != "fatal" && rf.Violation.Kind != "hang" && rf.Violation.Kind != "race" && rf.Violation.Kind != "stall" {
			out, _, ended, _ := ck.soloRun(&rf.Case, path, 3*ck.runTimeout, false, ck.info.Procs)
			if ended != "returned" || out == nil || out.Viol == nil || sanitize(out.Viol.Sig()) != sig {
				got := ended
				if out != nil && out.Viol != nil {
					got = sanitize(out.Viol.Sig())
				} else if out != nil {
					got = "no violation"
				}
				say("MACHINERY-ERROR replay of %s did not reproduce signature %s (got: %s)", path, sig, got)
				machineryFailed = true
				continue
			}
			if rf.Digest != "" && out.Digest != rf.Digest {
				say("MACHINERY-ERROR nondeterminism: replay digest %s != recorded %s for %s", out.Digest, rf.Digest, path)
				machineryFailed = true
				continue
			}
		}
		if k := knownFor(ck.kf, sig); k != nil {
			say("KNOWN-FINDING: property=%s %s [sig=%s occurrences=%d]", rf.Violation.Prop, k.text, sig, ck.violCount[sig])
			knownSeen = append(knownSeen, sig)
			continue
		}
		nViol++
		say("VIOLATION property=%s replay=%s", rf.Violation.Prop, path)
		say("  signature: %s   occurrences: %d", sig, ck.violCount[sig])
		d := rf.Violation.Detail
		if i := strings.Index(d, "\n"); i > 0 {
			d = d[:i]
		}
		say("  detail: %s", d)
		if rf.Desc != "" {
			for _, ln := range strings.Split(rf.Desc, "\n") {
				if len(ln) > 400 {
					ln = ln[:400] + "..."
				}
				say("  case: %s", ln)
			}
		}
	}
	for _, n := range ck.hangNotes {
		say("NOTE %s", n)
	}
	ck.writeEvidence(wall, nViol, knownSeen)
	say("simctl: %s %s: runs=%d nontrivial=%d ticks=%d violations=%d known=%d wall=%.1fs", ck.id, ck.tier, ck.stats.Runs, ck.stats.NonTrivial, ck.stats.Ticks, nViol, len(knownSeen), wall.Seconds())
	if nViol > 0 {
		return 1
	}
	if machineryFailed {
		return 2
	}
	return 0
}

func hash32(s string) uint32 {
	h := uint32(2166136261)
	for i := 0; i < len(s); i++ {
		h ^= uint32(s[i])
		h *= 16777619
	}
	return h
}

func (ck *checker) distinctDigests() int { return countDistinct("digests-*.bin") }

func countDistinct(pattern string) int {
	files, _ := filepath.Glob(filepath.Join(buildDir, pattern))
	set := map[uint64]struct{}{}
	for _, f := range files {
		b, err := os.ReadFile(f)
		if err != nil {
			continue
		}
		for i := 0; i+8 <= len(b); i += 8 {
			var d uint64
			for j := 0; j < 8; j++ {
				d |= uint64(b[i+j]) << (8 * uint(j))
			}
			set[d] = struct{}{}
		}
	}
	return len(set)
}

func (ck *checker) writeEvidence(wall time.Duration, nViol int, knownSeen []string) {
	st := ck.stats
	faults := map[string]map[string]int64{}
	probes := map[string]int64{}
	entries := map[string]int64{}
	other := map[string]int64{}
	for k, v := range st.C {
		switch {
		case strings.HasPrefix(k, "fault:"):
			parts := strings.Split(k[6:], ":")
			name := strings.Join(parts[:len(parts)-1], ":")
			if faults[name] == nil {
				faults[name] = map[string]int64{}
			}
			faults[name][parts[len(parts)-1]] = v
		case strings.HasPrefix(k, "probe:"):
			probes[k[6:]] = v
		case strings.HasPrefix(k, "entry:"):
			entries[k[6:]] = v
		case strings.HasPrefix(k, "viol:"):
		default:
			other[k] = v
		}
	}
	var samples []interface{}
	for _, s := range st.Samples {
		samples = append(samples, s)
	}
	if len(samples) == 0 {
		samples = append(samples, "no non-trivial run was sampled")
	}
	distinct := ck.distinctDigests()
	distinctSched := countDistinct("digests-*.bin.sched")
	allComplete := len(ck.info.Enumerated) > 0
	enumComplete := map[string]bool{}
	for _, c := range ck.info.Enumerated {
		enumComplete[c] = st.Complete[c]
		if !st.Complete[c] {
			allComplete = false
		}
	}
	cov := map[string]interface{}{
		"evaluations":                       st.Runs,
		"distinct_nontrivial":               distinct,
		"rule":                              ck.info.Rule,
		"samples":                           samples,
		"exhaustive":                        false,
		"nontrivial_runs":                   st.NonTrivial,
		"sim_ticks":                         st.Ticks,
		"runs_per_hour":                     int64(float64(st.Runs) / wall.Hours()),
		"seeds":                             []uint64{ck.seed},
		"faults":                            faults,
		"probes":                            probes,
		"entry_points":                      entries,
		"counters":                          other,
		"campaign_runs":                     st.Campaigns,
		"enumerated_complete":               enumComplete,
		"all_enumerated_campaigns_complete": allComplete,
		"components": map[string]string{
			"real":      "all of github.com/evanoberholster/imagemeta (built from the working tree with -tags verif), bufio, zerolog, sync.Pool" + ck.syncNote,
			"simulated": "reader/seeker/readerAt device, log sink, callback actors, generic image actor, task scheduler",
			"stub":      "none",
		},
		"known_findings_seen":        knownSeen,
		"watchdog_kills":             ck.watchdogKills,
		"oom_worker_deaths":          ck.oomDeaths,
		"watchdog_kills_unconfirmed": ck.unconfirmedKills,
		"distinct_schedules":         distinctSched,
		"regression_replays":         ck.regressionRan,
		"workers":                    ck.workers,
	}
	for k, v := range ck.info.Components {
		cov["component:"+k] = v
	}
	ev := map[string]interface{}{
		"property_id": ck.id,
		"tier":        ck.tier,
		"seed":        ck.seed,
		"level":       ck.info.Level,
		"coverage":    cov,
		"assumptions": ck.info.Assumptions,
		"wall_s":      wall.Seconds(),
		"violations":  nViol,
	}
	b, _ := json.MarshalIndent(ev, "", " ")
	evDir := filepath.Join(verifDir, "evidence")
	if v := os.Getenv("VERIF_OUT"); v != "" {
		evDir = filepath.Join(v, "evidence")
	}
	os.MkdirAll(evDir, 0o755)
	p := filepath.Join(evDir, ck.id+".json")
	if err := os.WriteFile(p, append(b, '\n'), 0o644); err != nil {
		say("MACHINERY-ERROR cannot write evidence: %v", err)
		machineryFailed = true
	}
	for name, n := range probes {
		if n == 0 {
			say("WARNING probe %s stuck at 0", name)
		}
	}
}

// doReplay: check <id> --replay <file>
func doReplay(bin, raceBin string, info *propInfo, path, tier string, kf []finding) int {
	rf, err := core.ReadReplay(path)
	if err != nil {
		die2("read replay: %v", err)
	}
	ck := &checker{id: info.ID, tier: tier, seed: rf.Case.Seed, bin: bin, raceBin: raceBin, info: info, kf: kf, stats: core.NewStats(),
		viol: map[string]*core.ReplayFile{}, violCount: map[string]int{}}
	ck.runTimeout = time.Duration(info.RunTimeoutSec) * time.Second
	if ck.runTimeout == 0 {
		ck.runTimeout = 10 * time.Second
	}
	// replays that depend on phase-0 exports need them recomputed
	if info.Phases > 1 {
		kv := map[string]string{}
		kvPath := filepath.Join(buildDir, "kv.json")
		ck.workers = 16
		for phase := 0; phase < info.Phases-1; phase++ {
			b, _ := json.Marshal(kv)
			os.WriteFile(kvPath, b, 0o644)
			ck.runPhase(phase, kvPath, 0, kv)
		}
		b, _ := json.Marshal(kv)
		os.WriteFile(kvPath, b, 0o644)
		ck.viol = map[string]*core.ReplayFile{}
	}
	race := rf.Violation != nil && rf.Violation.Kind == "race" && raceBin != ""
	out, _, ended, tail := ck.soloRun(&rf.Case, path, 3*ck.runTimeout, race, info.Procs)
	var v *core.Violation
	switch {
	case ended == "returned" && out != nil:
		v = out.Viol
		if v != nil && rf.Digest != "" && out.Digest != rf.Digest && sanitize(v.Sig()) == rf.Signature {
			say("MACHINERY-ERROR nondeterminism: replay digest %s != recorded %s", out.Digest, rf.Digest)
			return 2
		}
	case ended == "timeout":
		_, hsite := classifyCrash(tail)
		v = ck.hangViolation(rf.Violation.Entry, hsite, tail)
	default:
		class, site := classifyCrash(tail)
		kind := "fatal"
		if class == "DATA RACE" {
			kind, site = "race", raceSite(tail)
		}
		entry := ""
		if rf.Violation != nil {
			entry = rf.Violation.Entry
		}
		v = &core.Violation{Prop: info.ID, Kind: kind, Entry: entry, Site: site + "/" + class, Detail: tail}
	}
	if v == nil {
		say("replay: no violation (the recorded signature %s does not recur)", rf.Signature)
		return 0
	}
	sig := sanitize(v.Sig())
	if rf.Signature != "" && sig != rf.Signature {
		say("replay: a different violation occurred: %s (recorded %s)", sig, rf.Signature)
	}
	if k := knownFor(kf, sig); k != nil {
		say("KNOWN-FINDING: property=%s %s [sig=%s]", v.Prop, k.text, sig)
		return 0
	}
	say("VIOLATION property=%s replay=%s", v.Prop, path)
	say("  signature: %s", sig)
	d := v.Detail
	if len(d) > 2000 {
		d = d[:2000]
	}
	say("  detail: %s", d)
	if out != nil && out.Desc != "" {
		say("  case: %s", strings.ReplaceAll(out.Desc, "\n", "\n  case: "))
	}
	return 1
}
