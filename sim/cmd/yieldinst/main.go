// Command yieldinst writes the instrumented scratch copy of a repository (see package yieldinst):
// yieldinst <repo> <dst>. The orchestrator calls the package directly; this command serves the
// determinism self-test and debugging.
package main

import (
	"fmt"
	"os"

	"verifsim/yieldinst"
)

func main() {
	if len(os.Args) != 3 {
		fmt.Fprintln(os.Stderr, "usage: yieldinst <repo> <dst>")
		os.Exit(2)
	}
	st, err := yieldinst.Instrument(os.Args[1], os.Args[2], "github.com/evanoberholster/imagemeta")
	if err != nil {
		fmt.Fprintln(os.Stderr, err)
		os.Exit(2)
	}
	fmt.Printf("%d files, %d scheduling points, %d lock acquisitions, %d once calls\n", st.Files, st.Yields, st.Locks, st.Onces)
}
