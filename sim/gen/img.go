package gen

import (
	"image"
	"image/color"
	"math"

	"verifsim/core"
)

// Images for the perceptual-hash properties (C19; workload of C04/C05). The logical image is an
// N x N array of 8-bit RGB pixels; it is materialised as *image.RGBA, *image.NRGBA, *image.Gray,
// *image.YCbCr (4:4:4) or a generic image.Image, at the origin or as a sub-image of a larger
// parent at a random origin. The reference luminance is 0.299 R + 0.587 G + 0.114 B of the
// pixels the materialised image actually holds (ITU-R BT.601 weights, as the library documents).

type Pixels struct {
	N   int
	RGB [][3]uint8 // row-major
	// Clear marks fully transparent pixels (nil: the image is opaque). Only the kinds that carry
	// alpha (NRGBA, generic) materialise it; a transparent pixel's premultiplied colour, and so
	// its luminance, is zero.
	Clear []bool
}

// Content classes.
var ContentNames = []string{"gradient", "bandlimited", "white-noise", "constant", "extremes", "impulse", "blocks"}

func DrawPixels(l *core.Lane, n int) (*Pixels, string) {
	p := &Pixels{N: n, RGB: make([][3]uint8, n*n)}
	class := l.Intn(len(ContentNames))
	f := l.Sub()
	switch class {
	case 0: // smooth gradients
		ax, ay, ph := 1+f.Intn(5), 1+f.Intn(5), f.Intn(256)
		for y := 0; y < n; y++ {
			for x := 0; x < n; x++ {
				v := (x*ax*255/(n*5) + y*ay*255/(n*5) + ph) % 256
				p.RGB[y*n+x] = [3]uint8{uint8(v), uint8((v * 3 / 4) % 256), uint8(255 - v)}
			}
		}
	case 1: // band-limited: a few low-frequency cosines
		k := 2 + f.Intn(5)
		type wave struct{ u, v, a, ph float64 }
		ws := make([]wave, k)
		for i := range ws {
			ws[i] = wave{float64(f.Intn(7)), float64(f.Intn(7)), 10 + float64(f.Intn(40)), float64(f.Intn(628)) / 100}
		}
		for y := 0; y < n; y++ {
			for x := 0; x < n; x++ {
				s := 128.0
				for _, w := range ws {
					s += w.a * math.Cos(math.Pi*w.u*float64(x)/float64(n)+w.ph) * math.Cos(math.Pi*w.v*float64(y)/float64(n))
				}
				if s < 0 {
					s = 0
				}
				if s > 255 {
					s = 255
				}
				v := uint8(s)
				p.RGB[y*n+x] = [3]uint8{v, v / 2, 255 - v/3}
			}
		}
	case 2: // white noise
		for i := range p.RGB {
			p.RGB[i] = [3]uint8{f.Byte(), f.Byte(), f.Byte()}
		}
	case 3: // constant
		c := [3]uint8{f.Byte(), f.Byte(), f.Byte()}
		for i := range p.RGB {
			p.RGB[i] = c
		}
	case 4: // extremes
		for i := range p.RGB {
			if f.Intn(2) == 0 {
				p.RGB[i] = [3]uint8{255, 255, 255}
			}
		}
	case 5: // single impulses on a flat background
		bg := f.Byte()
		for i := range p.RGB {
			p.RGB[i] = [3]uint8{bg, bg, bg}
		}
		for k := 1 + f.Intn(3); k > 0; k-- {
			p.RGB[f.Intn(n*n)] = [3]uint8{f.Byte(), f.Byte(), f.Byte()}
		}
	default: // blocks
		bs := 4 << uint(f.Intn(3))
		for y := 0; y < n; y++ {
			for x := 0; x < n; x++ {
				s := core.NewSplitMix(uint64((y/bs)*1000+(x/bs)) ^ uint64(f.Intn(1)))
				v := s.Next()
				p.RGB[y*n+x] = [3]uint8{uint8(v), uint8(v >> 8), uint8(v >> 16)}
			}
		}
	}
	if l.Chance(1, 5) {
		// a transparent region: a block, or scattered pixels
		p.Clear = make([]bool, n*n)
		if f.Intn(2) == 0 {
			x0, y0, w := f.Intn(n), f.Intn(n), 1+f.Intn(n/2)
			for y := y0; y < n && y < y0+w; y++ {
				for x := x0; x < n && x < x0+w; x++ {
					p.Clear[y*n+x] = true
				}
			}
		} else {
			for k := 1 + f.Intn(n*n/8); k > 0; k-- {
				p.Clear[f.Intn(n*n)] = true
			}
		}
		return p, ContentNames[class] + "+transparent"
	}
	return p, ContentNames[class]
}

// Image kinds.
const (
	KRGBA    = 0
	KNRGBA   = 1
	KGray    = 2
	KYCbCr   = 3
	KGeneric = 4
	NumKinds = 5
)

var KindNames = []string{"RGBA", "NRGBA", "Gray", "YCbCr444", "generic"}

// GenericImage is an image.Image that is none of the concrete types the library has fast paths
// for. OnAt, when set, is called at every At (a device event of the simulated world).
type GenericImage struct {
	R     image.Rectangle
	Pix   [][3]uint8 // row-major over R
	Clear []bool     // fully transparent pixels (nil: opaque)
	OnAt  func()
	Ats   int64
}

// SetOnAt installs the At hook.
func (g *GenericImage) SetOnAt(f func()) { g.OnAt = f }

func (g *GenericImage) ColorModel() color.Model { return color.RGBAModel }
func (g *GenericImage) Bounds() image.Rectangle { return g.R }
func (g *GenericImage) At(x, y int) color.Color {
	g.Ats++
	if g.OnAt != nil {
		g.OnAt()
	}
	if !(image.Point{x, y}.In(g.R)) {
		return color.RGBA{}
	}
	i := (y-g.R.Min.Y)*g.R.Dx() + (x - g.R.Min.X)
	p := g.Pix[i]
	if g.Clear != nil && g.Clear[i] {
		return color.NRGBA{p[0], p[1], p[2], 0}
	}
	return color.RGBA{p[0], p[1], p[2], 255}
}

// Materialise builds an image of the given kind holding the pixels in a w x h rectangle whose
// top-left corner is at origin (ox, oy). When sub is set, the rectangle is a sub-image of a
// larger parent filled with other content (pad pixels on each side); lum receives the luminance
// of every pixel as the materialised image holds it.
func (p *Pixels) Materialise(kind int, ox, oy int, sub bool, pad int, fill *core.SplitMix) (img image.Image, lum []float64) {
	n := p.N
	lum = make([]float64, n*n)
	rect := image.Rect(ox, oy, ox+n, oy+n)
	parent := rect
	if sub {
		parent = image.Rect(ox-pad, oy-pad, ox+n+pad, oy+n+pad)
	}
	other := func() uint8 { return uint8(fill.Next()) }
	at := func(x, y int) ([3]uint8, bool) {
		if (image.Point{x, y}).In(rect) {
			return p.RGB[(y-oy)*n+(x-ox)], true
		}
		return [3]uint8{other(), other(), other()}, false
	}
	l601 := func(r, g, b float64) float64 { return 0.299*r + 0.587*g + 0.114*b }
	switch kind {
	case KRGBA:
		m := image.NewRGBA(parent)
		for y := parent.Min.Y; y < parent.Max.Y; y++ {
			for x := parent.Min.X; x < parent.Max.X; x++ {
				c, in := at(x, y)
				m.SetRGBA(x, y, color.RGBA{c[0], c[1], c[2], 255})
				if in {
					lum[(y-oy)*n+(x-ox)] = l601(float64(c[0]), float64(c[1]), float64(c[2]))
				}
			}
		}
		img = m
		if sub {
			img = m.SubImage(rect)
		}
	case KNRGBA:
		m := image.NewNRGBA(parent)
		for y := parent.Min.Y; y < parent.Max.Y; y++ {
			for x := parent.Min.X; x < parent.Max.X; x++ {
				c, in := at(x, y)
				m.SetNRGBA(x, y, color.NRGBA{c[0], c[1], c[2], 255})
				if in {
					lum[(y-oy)*n+(x-ox)] = l601(float64(c[0]), float64(c[1]), float64(c[2]))
					if p.Clear != nil && p.Clear[(y-oy)*n+(x-ox)] {
						m.SetNRGBA(x, y, color.NRGBA{c[0], c[1], c[2], 0})
						lum[(y-oy)*n+(x-ox)] = 0
					}
				}
			}
		}
		img = m
		if sub {
			img = m.SubImage(rect)
		}
	case KGray:
		m := image.NewGray(parent)
		for y := parent.Min.Y; y < parent.Max.Y; y++ {
			for x := parent.Min.X; x < parent.Max.X; x++ {
				c, in := at(x, y)
				m.SetGray(x, y, color.Gray{c[0]})
				if in {
					lum[(y-oy)*n+(x-ox)] = l601(float64(c[0]), float64(c[0]), float64(c[0]))
				}
			}
		}
		img = m
		if sub {
			img = m.SubImage(rect)
		}
	case KYCbCr:
		m := image.NewYCbCr(parent, image.YCbCrSubsampleRatio444)
		for y := parent.Min.Y; y < parent.Max.Y; y++ {
			for x := parent.Min.X; x < parent.Max.X; x++ {
				c, in := at(x, y)
				// in-gamut by construction: the triple comes from an RGB colour pulled 1/8 towards
				// mid-grey, so that rounding in the forward conversion cannot leave the gamut
				r8 := 16 + int(c[0])*7/8
				g8 := 16 + int(c[1])*7/8
				b8 := 16 + int(c[2])*7/8
				yy, cb, cr := color.RGBToYCbCr(uint8(r8), uint8(g8), uint8(b8))
				m.Y[m.YOffset(x, y)], m.Cb[m.COffset(x, y)], m.Cr[m.COffset(x, y)] = yy, cb, cr
				if in {
					// JFIF conversion in real arithmetic
					R := float64(yy) + 1.402*(float64(cr)-128)
					G := float64(yy) - 0.344136*(float64(cb)-128) - 0.714136*(float64(cr)-128)
					B := float64(yy) + 1.772*(float64(cb)-128)
					lum[(y-oy)*n+(x-ox)] = l601(R, G, B)
				}
			}
		}
		img = m
		if sub {
			img = m.SubImage(rect)
		}
	default:
		g := &GenericImage{R: rect, Pix: make([][3]uint8, n*n), Clear: p.Clear}
		copy(g.Pix, p.RGB)
		for i, c := range p.RGB {
			lum[i] = l601(float64(c[0]), float64(c[1]), float64(c[2]))
			if p.Clear != nil && p.Clear[i] {
				lum[i] = 0
			}
		}
		img = g
	}
	return img, lum
}

// WrongSizes lists (w, h) pairs that are not the required size of either hash.
var WrongSizes = [][2]int{{0, 0}, {1, 1}, {63, 64}, {64, 63}, {64, 32}, {32, 64}, {32, 32}, {65, 65}, {128, 128}, {256, 64}, {64, 256}, {128, 32}, {4096, 1}, {255, 256}, {256, 255}, {257, 257}, {512, 128}, {8, 8}, {100, 100}, {64, 65}, {256, 257}}

// BlankImage builds a w x h image of the given kind with arbitrary content.
func BlankImage(kind, w, h int, fill *core.SplitMix) image.Image {
	r := image.Rect(0, 0, w, h)
	switch kind {
	case KRGBA:
		m := image.NewRGBA(r)
		for i := range m.Pix {
			m.Pix[i] = uint8(fill.Next())
		}
		return m
	case KNRGBA:
		m := image.NewNRGBA(r)
		for i := range m.Pix {
			m.Pix[i] = uint8(fill.Next())
		}
		return m
	case KGray:
		m := image.NewGray(r)
		for i := range m.Pix {
			m.Pix[i] = uint8(fill.Next())
		}
		return m
	case KYCbCr:
		m := image.NewYCbCr(r, image.YCbCrSubsampleRatio444)
		for i := range m.Y {
			m.Y[i] = uint8(fill.Next())
		}
		for i := range m.Cb {
			m.Cb[i], m.Cr[i] = 128, 128
		}
		return m
	}
	g := &GenericImage{R: r, Pix: make([][3]uint8, w*h)}
	for i := range g.Pix {
		g.Pix[i] = [3]uint8{uint8(fill.Next()), uint8(fill.Next()), uint8(fill.Next())}
	}
	return g
}
