package gen

import (
	"encoding/binary"
	"hash/crc32"

	"verifsim/core"
)

// ---------------------------------------------------------------------------------------------
// JPEG marker streams (JFIF / ITU-T T.81 Annex B syntax)

// Segment is one entry of the generator's segment table — the oracle for C10.
type Segment struct {
	Marker  byte
	Off     int    // absolute offset of the 0xFF of the marker
	Len     int    // declared length (includes the two length bytes); 0 for SOI/EOI
	Payload []byte // bytes after the length field
	Kind    string // soi app0 exif xmp xmpext icc ps appn com dri sof dqt dht sos eoi fake-exif fake-xmp
	// for exif/xmp segments: absolute offset and bytes of the TIFF block / XMP packet
	DataOff int
	Data    []byte
}

type JPEG struct {
	Bytes      []byte
	Segs       []Segment
	FirstTable int // index in Segs of the first DQT
}

const xmpURI = "http://ns.adobe.com/xap/1.0/\x00"
const xmpExtURI = "http://ns.adobe.com/xmp/extension/\x00"

// payload with 0xFF bytes and nested SOI...EOI thumbnails inside
func noisyPayload(l *core.Lane, max int) []byte {
	n := l.Intn(max + 1)
	f := l.Sub()
	b := f.Bytes(n)
	if n > 12 && l.Bool() {
		// nested thumbnail: SOI, APP0-like, EOI inside the payload
		p := f.Intn(n - 10)
		copy(b[p:], []byte{0xff, 0xd8, 0xff, 0xe0, 0x00, 0x04, 0x01, 0x02, 0xff, 0xd9})
	}
	for i := 0; i < n/16; i++ {
		b[f.Intn(n)] = 0xff
	}
	return ScreenTIFF(b)
}

// JPEGOpts tunes DrawJPEG.
type JPEGOpts struct {
	Exif [][]byte // TIFF blocks to embed as APP1 Exif segments (each <= 65527 bytes)
	XMP  [][]byte // XMP packets to embed as APP1 XMP segments (each <= 65502 bytes)
	Max  int      // max other segments
	Tail int      // bytes of entropy-coded data after SOS (>= 64)
	// BigSeg > 0 adds one ignored segment (APPn or COM) whose length field is 0x10000-BigSeg:
	// the largest legal segments (BigSeg 1 = 0xFFFF).
	BigSeg int
}

// DrawJPEG draws SOI, S1..Sn, DQT/DHT.., SOS + data, EOI and keeps the segment table.
func DrawJPEG(l *core.Lane, o JPEGOpts) *JPEG {
	j := &JPEG{}
	put := func(s Segment) {
		s.Off = len(j.Bytes)
		j.Bytes = append(j.Bytes, 0xff, s.Marker)
		if s.Kind != "soi" && s.Kind != "eoi" {
			s.Len = len(s.Payload) + 2
			j.Bytes = append(j.Bytes, byte(s.Len>>8), byte(s.Len))
			if s.Data != nil {
				s.DataOff = len(j.Bytes) + (len(s.Payload) - len(s.Data))
			}
			j.Bytes = append(j.Bytes, s.Payload...)
		}
		j.Segs = append(j.Segs, s)
	}
	put(Segment{Marker: 0xd8, Kind: "soi"})
	// the metadata segments in random positions among the others
	type item struct {
		kind string
		data []byte
	}
	var items []item
	for _, e := range o.Exif {
		items = append(items, item{"exif", e})
	}
	for _, x := range o.XMP {
		items = append(items, item{"xmp", x})
	}
	nOther := 0
	if o.Max > 0 {
		nOther = l.Intn(o.Max + 1)
	}
	for i := 0; i < nOther; i++ {
		items = append(items, item{"other", nil})
	}
	if o.BigSeg > 0 {
		items = append(items, item{"big", nil})
	}
	// order: 0 = metadata first in given order then others; else shuffled
	if l.Bool() {
		for i := len(items) - 1; i > 0; i-- {
			k := l.Intn(i + 1)
			items[i], items[k] = items[k], items[i]
		}
	}
	for _, it := range items {
		switch it.kind {
		case "exif":
			p := append([]byte("Exif\x00\x00"), it.data...)
			put(Segment{Marker: 0xe1, Kind: "exif", Payload: p, Data: it.data})
		case "xmp":
			p := append([]byte(xmpURI), it.data...)
			put(Segment{Marker: 0xe1, Kind: "xmp", Payload: p, Data: it.data})
		case "big":
			n := 0x10000 - o.BigSeg - 2
			f := l.Sub()
			p := f.Bytes(n)
			// look-alike metadata and a nested SOI + DQT inside the payload
			copy(p[100:], []byte{0xff, 0xe1, 0x00, 0x10, 'E', 'x', 'i', 'f', 0, 0, 'I', 'I', 0x2b, 0, 8, 0, 0, 0, 0xff, 0xd8, 0xff, 0xdb, 0x00, 0x04, 1, 2, 0xff, 0xd9})
			m := byte(0xfe)
			if l.Bool() {
				m = byte(0xe2 + l.Intn(14))
			}
			put(Segment{Marker: m, Kind: "appn", Payload: ScreenTIFF(p)})
		default:
			switch l.Intn(12) {
			case 0: // APP0 JFIF
				p := append([]byte("JFIF\x00\x01\x02\x00\x00\x48\x00\x48\x00\x00"), noisyPayload(l, 40)...)
				put(Segment{Marker: 0xe0, Kind: "app0", Payload: p})
			case 1: // APP0 JFXX
				p := append([]byte("JFXX\x00\x10"), noisyPayload(l, 300)...)
				put(Segment{Marker: 0xe0, Kind: "app0", Payload: p})
			case 2: // APP1 XMP extension (not metadata for the scanner)
				p := append([]byte(xmpExtURI), noisyPayload(l, 400)...)
				put(Segment{Marker: 0xe1, Kind: "xmpext", Payload: p})
			case 3: // APP2 ICC
				p := append([]byte("ICC_PROFILE\x00\x01\x01"), noisyPayload(l, 600)...)
				put(Segment{Marker: 0xe2, Kind: "icc", Payload: p})
			case 4: // APP13 Photoshop
				p := append([]byte("Photoshop 3.0\x008BIM"), noisyPayload(l, 400)...)
				put(Segment{Marker: 0xed, Kind: "ps", Payload: p})
			case 5: // APPn (n != 1) whose payload merely contains the Exif prefix / XMP URI
				m := byte(0xe2 + l.Intn(14))
				var p []byte
				if l.Bool() {
					p = append(p, []byte("Exif\x00\x00II*\x00\x08\x00\x00\x00")...)
					p = ScreenTIFF(p)
					p = append(p, noisyPayload(l, 60)...)
					put(Segment{Marker: m, Kind: "fake-exif", Payload: p})
				} else {
					p = append(p, noisyPayload(l, 20)...)
					p = append(p, []byte(xmpURI)...)
					p = append(p, noisyPayload(l, 60)...)
					put(Segment{Marker: m, Kind: "fake-xmp", Payload: p})
				}
			case 6: // APP1 that contains the Exif prefix at another position
				p := append([]byte("XX"), []byte("Exif\x00\x00")...)
				p = append(p, noisyPayload(l, 80)...)
				put(Segment{Marker: 0xe1, Kind: "fake-exif", Payload: p})
			case 7: // COM
				put(Segment{Marker: 0xfe, Kind: "com", Payload: noisyPayload(l, 200)})
			case 8: // DRI (length is always 4)
				// restart intervals with 0xFF bytes matter: a scanner that leaves them in the stream
				// takes them for a marker
				d0, d1 := l.Intn(256), l.Intn(256)
				if d0%3 == 1 {
					d0 = 0xff
				}
				if d1%3 == 2 {
					d1 = 0xff
				}
				put(Segment{Marker: 0xdd, Kind: "dri", Payload: []byte{byte(d0), byte(d1)}})
			case 9: // SOF0/1/2
				m := byte(0xc0 + l.Intn(3))
				p := []byte{8, byte(l.Intn(256)), byte(l.Intn(256)), byte(l.Intn(256)), byte(l.Intn(256)), 3, 1, 0x22, 0, 2, 0x11, 1, 3, 0x11, 1}
				put(Segment{Marker: m, Kind: "sof", Payload: p})
			default: // APP3..APP15 random, possibly large
				m := byte(0xe3 + l.Intn(13))
				if m == 0xed {
					m = 0xee
				}
				max := 300
				if l.Chance(1, 5) {
					max = 9000
				}
				put(Segment{Marker: m, Kind: "appn", Payload: noisyPayload(l, max)})
			}
		}
	}
	j.FirstTable = len(j.Segs)
	nq := 1 + l.Intn(2)
	for i := 0; i < nq; i++ {
		p := append([]byte{byte(i)}, l.Sub().Bytes(64)...)
		put(Segment{Marker: 0xdb, Kind: "dqt", Payload: p})
	}
	put(Segment{Marker: 0xc4, Kind: "dht", Payload: append([]byte{0x00}, l.Sub().Bytes(28)...)})
	put(Segment{Marker: 0xda, Kind: "sos", Payload: []byte{3, 1, 0, 2, 0x11, 3, 0x11, 0, 0x3f, 0}})
	tail := o.Tail
	if tail < 64 {
		tail = 64
	}
	tail += l.Intn(200)
	f := l.Sub()
	for i := 0; i < tail; i++ {
		b := f.Byte()
		j.Bytes = append(j.Bytes, b)
		if b == 0xff { // byte stuffing
			j.Bytes = append(j.Bytes, 0x00)
		}
	}
	put(Segment{Marker: 0xd9, Kind: "eoi"})
	return j
}

// ---------------------------------------------------------------------------------------------
// PNG (PNG 1.2 + eXIf extension)

type PNG struct {
	Bytes   []byte
	ExifOff int // absolute offset of the eXIf chunk data (-1 none)
	Map     []FieldSpan
}

func pngChunk(out []byte, typ string, data []byte) []byte {
	var h [8]byte
	binary.BigEndian.PutUint32(h[:4], uint32(len(data)))
	copy(h[4:], typ)
	out = append(out, h[:]...)
	out = append(out, data...)
	c := crc32.NewIEEE()
	c.Write([]byte(typ))
	c.Write(data)
	var t [4]byte
	binary.BigEndian.PutUint32(t[:], c.Sum32())
	return append(out, t[:]...)
}

// DrawPNG draws signature, IHDR, random ancillary chunks, eXIf, IDAT, IEND with correct CRCs.
func DrawPNG(l *core.Lane, exif []byte, surround bool) *PNG {
	p := &PNG{ExifOff: -1}
	out := []byte("\x89PNG\r\n\x1a\n")
	ihdr := make([]byte, 13)
	binary.BigEndian.PutUint32(ihdr[0:], uint32(1+l.Intn(4000)))
	binary.BigEndian.PutUint32(ihdr[4:], uint32(1+l.Intn(4000)))
	ihdr[8], ihdr[9] = 8, 2
	out = pngChunk(out, "IHDR", ihdr)
	anc := func() {
		if !surround {
			return
		}
		n := l.Intn(4)
		for i := 0; i < n; i++ {
			typ := []string{"tEXt", "gAMA", "pHYs", "iCCP", "zTXt", "tIME", "bKGD", "sBIT", "prVt"}[l.Intn(9)]
			out = pngChunk(out, typ, ScreenTIFF(l.Sub().Bytes(l.Intn(300))))
		}
	}
	anc()
	exifAfter := surround && l.Chance(1, 4)
	if exif != nil && !exifAfter {
		p.ExifOff = len(out) + 8
		out = pngChunk(out, "eXIf", exif)
	}
	anc()
	out = pngChunk(out, "IDAT", ScreenTIFF(l.Sub().Bytes(16+l.Intn(400))))
	if exif != nil && exifAfter {
		anc()
		p.ExifOff = len(out) + 8
		out = pngChunk(out, "eXIf", exif)
	}
	anc()
	out = pngChunk(out, "IEND", nil)
	p.Bytes = out
	// layout map: every chunk's length field and end
	for i := 8; i+12 <= len(out); {
		n := int(binary.BigEndian.Uint32(out[i:]))
		p.Map = append(p.Map, FieldSpan{"png.chunk.len", i, 4}, FieldSpan{"end:chunk", i + 12 + n, 0})
		i += 12 + n
	}
	return p
}

// ---------------------------------------------------------------------------------------------
// ISOBMFF helpers

func be32(v uint32) []byte { var b [4]byte; binary.BigEndian.PutUint32(b[:], v); return b[:] }
func be16(v uint16) []byte { var b [2]byte; binary.BigEndian.PutUint16(b[:], v); return b[:] }

// Box serialises a box with a 32-bit size header.
func Box(typ string, payload ...[]byte) []byte {
	n := 8
	for _, p := range payload {
		n += len(p)
	}
	out := append(be32(uint32(n)), typ...)
	for _, p := range payload {
		out = append(out, p...)
	}
	return out
}

// Box64 serialises a box with a 64-bit (size==1) header.
func Box64(typ string, payload ...[]byte) []byte {
	n := 16
	for _, p := range payload {
		n += len(p)
	}
	out := append(be32(1), typ...)
	var b [8]byte
	binary.BigEndian.PutUint64(b[:], uint64(n))
	out = append(out, b[:]...)
	for _, p := range payload {
		out = append(out, p...)
	}
	return out
}

var (
	uuidCanonMeta = []byte{0x85, 0xc0, 0xb6, 0x87, 0x82, 0x0f, 0x11, 0xe0, 0x81, 0x11, 0xf4, 0xce, 0x46, 0x2b, 0x6a, 0x48}
	uuidXPacket   = []byte{0xbe, 0x7a, 0xcf, 0xcb, 0x97, 0xa9, 0x42, 0xe8, 0x9c, 0x71, 0x99, 0x94, 0x91, 0xe3, 0xaf, 0xac}
	uuidPreview   = []byte{0xea, 0xf4, 0x2b, 0x5e, 0x1c, 0x98, 0x4b, 0x88, 0xb9, 0xfb, 0xb7, 0xdc, 0x40, 0x6e, 0x4d, 0x16}
)

// CR3 is a generated Canon CR3 file (layout per lclevy/canon_cr3) with the generator's table of
// where each payload lives.
type CR3 struct {
	Bytes []byte
	// MoovFirst: the uninterpreted box in front of the Canon uuid box inside moov (End == 0: none)
	MoovFirst Span
	// absolute [start,end) of every top-level box in order
	Top []Span
	// payloads handed to callbacks
	CMT     [4][]byte // CMT1..CMT4 TIFF blocks (nil = box absent)
	CMTOff  [4]int    // absolute offset of the TIFF block
	XMP     []byte
	XMPOff  int
	Preview []byte
	PrevOff int
	PrevW   int
	PrevH   int
	// offsets of size/count fields (layout map for structure-aware flips)
	Map []FieldSpan
	// containment table: [start,end) of the boxes that enclose the callback payloads
	Moov, Canon, XMPBox, PrevUUID, PRVW Span
	CMTBox                              [4]Span
}

type Span struct {
	Type       string
	Start, End int
}

// CR3Opts tunes DrawCR3.
type CR3Opts struct {
	CMT           [4][]byte
	XMP           []byte
	Preview       []byte
	Surround      bool // random extra boxes inside moov / the Canon uuid / after the standard ones
	Use64         bool // allow 64-bit box headers
	Brands        int  // further compatible brands in ftyp (cameras write two)
	BrandsNoMajor bool // the compatible brands do not repeat the major brand
	TopExtra      bool // unknown/free boxes between any two top-level boxes (also right after ftyp)
	// ShortLead: 1 = the CNCV box in front of the CMT boxes holds fewer bytes than the 30 of a
	// compressor version string, 2 = the CTBO box holds fewer than its 4-byte count
	ShortLead int
	// CTBO: 0 = four records and count 4; otherwise records = 4 + CTBO%4 (index fields 1, 2, ...) and
	// the count field = records + CTBO/4 (a count that says more than the box holds when CTBO >= 4)
	CTBO int
	// PrvwField != 0: the jpeg-size field of the PRVW header says len(Preview)+PrvwField (the box
	// itself is sized by what it holds) and a free box follows PRVW inside the preview uuid box
	PrvwField int
	// LeadFree > 0: a free box with LeadFree-1 payload bytes stands in front of ftyp (no file the
	// entry points accept; a caller of the box reader finds out from ReadFTYP's error)
	LeadFree int
	Top64    int // bit 0: moov, bit 1: the xpacket uuid box, bit 2: the preview uuid box carry a 64-bit size (size field 1, largesize follows); bit 3: the PRVW box inside it does
	Tail     int // 0: mdat last (as cameras write it); 1: no mdat (the last metadata box ends the stream); 2: mdat before the xpacket/preview uuid boxes
}

func randBox(l *core.Lane) []byte {
	typ := []string{"free", "skip", "THMB", "CCTP", "zzzz", "mvhd", "CCDT", "udta"}[l.Intn(8)]
	return Box(typ, ScreenTIFF(l.Sub().Bytes(l.Intn(200))))
}

// DrawCR3 draws ftyp, moov(uuid Canon(CNCV CCTP CTBO CMT1..4) trak*), uuid xpacket,
// uuid preview(PRVW), mdat.
func DrawCR3(l *core.Lane, o CR3Opts) *CR3 {
	c := &CR3{CMT: o.CMT, XMP: o.XMP, Preview: o.Preview}
	// --- Canon metadata uuid
	var inner []byte
	cncv := []byte("CanonCR3_001/00.09.00/00.00.00")
	if o.ShortLead == 1 {
		cncv = cncv[:l.Intn(12)]
	}
	inner = append(inner, Box("CNCV", cncv)...)
	if o.Surround && l.Bool() {
		inner = append(inner, Box("CCTP", be32(0), be32(1), be32(3), Box("CCDT", make([]byte, 16)), Box("CCDT", make([]byte, 16)))...)
	}
	nrec, ncount := 4, 4
	if o.CTBO > 0 {
		nrec = 4 + o.CTBO%4
		ncount = nrec + o.CTBO/4
	}
	ctbo := be32(uint32(ncount))
	for i := 1; i <= nrec; i++ {
		ctbo = append(ctbo, be32(uint32(i))...)
		ctbo = append(ctbo, make([]byte, 4)...)
		ctbo = append(ctbo, be32(uint32(l.Intn(1<<20)))...)
		ctbo = append(ctbo, make([]byte, 4)...)
		ctbo = append(ctbo, be32(uint32(l.Intn(1<<20)))...)
	}
	if o.ShortLead == 2 {
		ctbo = ctbo[:l.Intn(4)]
	}
	ctboRel := len(inner) + 8
	inner = append(inner, Box("CTBO", ctbo)...)
	type cmtPos struct{ idx, rel, hdr int }
	var cmtRel []cmtPos
	for i := 0; i < 4; i++ {
		if o.Surround && l.Chance(1, 4) {
			inner = append(inner, randBox(l)...)
		}
		if o.CMT[i] == nil {
			continue
		}
		use64 := o.Use64 && l.Chance(1, 4)
		typ := "CMT" + string(rune('1'+i))
		if use64 {
			cmtRel = append(cmtRel, cmtPos{i, len(inner) + 16, 16})
			inner = append(inner, Box64(typ, o.CMT[i])...)
		} else {
			cmtRel = append(cmtRel, cmtPos{i, len(inner) + 8, 8})
			inner = append(inner, Box(typ, o.CMT[i])...)
		}
	}
	if o.Surround && l.Bool() {
		inner = append(inner, Box("THMB", be32(0), be16(160), be16(120), be32(16), be16(1), be16(0), l.Sub().Bytes(16))...)
	}
	canon := Box("uuid", uuidCanonMeta, inner)
	// --- moov
	var moov []byte
	preMoov := 0
	if o.Surround && l.Chance(1, 4) {
		rb := randBox(l)
		moov = append(moov, rb...)
		preMoov = len(rb)
	}
	moov = append(moov, canon...)
	if o.Surround {
		moov = append(moov, Box("mvhd", make([]byte, 100))...)
		nt := l.Intn(4)
		for i := 0; i < nt; i++ {
			moov = append(moov, Box("trak", Box("tkhd", make([]byte, 84)), Box("mdia", ScreenTIFF(l.Sub().Bytes(l.Intn(300)))))...)
		}
	}
	compat := []byte("crx isom")
	if o.BrandsNoMajor {
		compat = []byte("isom") // the major brand is not repeated among the compatible ones
	}
	for i := 0; i < o.Brands; i++ {
		compat = append(compat, []string{"mif1", "miaf", "heic", "avif", "MiHB", "iso8", "mp41", "heix", "msf1", "mp42", "hevc", "MiPr"}[i%12]...)
	}
	ftyp := Box("ftyp", []byte("crx "), be32(1), compat)
	var out []byte
	if o.LeadFree > 0 {
		out = append(out, Box("free", make([]byte, o.LeadFree-1))...)
		c.Top = append(c.Top, Span{"lead", 0, len(out)})
	}
	fs := len(out)
	out = append(out, ftyp...)
	c.Top = append(c.Top, Span{"ftyp", fs, len(out)})
	topExtra := func() {
		if !o.TopExtra {
			return
		}
		n := l.Intn(3)
		for i := 0; i < n; i++ {
			s := len(out)
			if l.Chance(1, 4) {
				out = append(out, Box64([]string{"free", "skip", "zzzz"}[l.Intn(3)], ScreenTIFF(l.Sub().Bytes(l.Intn(120))))...)
			} else {
				out = append(out, randBox(l)...)
			}
			c.Top = append(c.Top, Span{"extra", s, len(out)})
		}
	}
	topExtra()
	moovStart := len(out)
	mh := 8 // header length of moov
	if o.Top64&1 != 0 {
		mh = 16
		out = append(out, Box64("moov", moov)...)
		c.Map = append(c.Map, FieldSpan{"moov.largesize", moovStart + 8, 8})
	} else {
		out = append(out, Box("moov", moov)...)
	}
	c.Top = append(c.Top, Span{"moov", moovStart, len(out)})
	c.Moov = Span{"moov", moovStart, len(out)}
	c.Canon = Span{"uuid-canon", moovStart + mh + preMoov, moovStart + mh + preMoov + len(canon)}
	if preMoov > 0 {
		c.MoovFirst = Span{"moov-child", moovStart + mh, moovStart + mh + preMoov}
	}
	topExtra()
	c.Map = append(c.Map, FieldSpan{"moov.size", moovStart, 4}, FieldSpan{"canon.size", moovStart + mh + preMoov, 4})
	canonPayload := moovStart + mh + preMoov + 8 + 16
	c.Map = append(c.Map, FieldSpan{"ctbo.size", canonPayload + ctboRel - 8, 4}, FieldSpan{"ctbo.count", canonPayload + ctboRel, 4})
	for i := 0; i < 4; i++ {
		rec := canonPayload + ctboRel + 4 + 20*i
		c.Map = append(c.Map, FieldSpan{"ctbo.idx", rec, 4}, FieldSpan{"ctbo.off", rec + 4, 8}, FieldSpan{"ctbo.len", rec + 12, 8})
	}
	for _, cp := range cmtRel {
		c.CMTOff[cp.idx] = canonPayload + cp.rel
		c.Map = append(c.Map, FieldSpan{"cmt.size", canonPayload + cp.rel - 8, 4})
		c.CMTBox[cp.idx] = Span{"cmt", canonPayload + cp.rel - cp.hdr, canonPayload + cp.rel + len(o.CMT[cp.idx])}
	}
	mdat := func() {
		s := len(out)
		out = append(out, Box("mdat", ScreenTIFF(l.Sub().Bytes(64+l.Intn(600))))...)
		c.Top = append(c.Top, Span{"mdat", s, len(out)})
	}
	if o.Tail == 2 {
		mdat()
	}
	// --- uuid xpacket
	if o.XMP != nil {
		s := len(out)
		xh := 8
		if o.Top64&2 != 0 {
			xh = 16
			out = append(out, Box64("uuid", uuidXPacket, o.XMP)...)
			c.Map = append(c.Map, FieldSpan{"xmp.largesize", s + 8, 8})
		} else {
			out = append(out, Box("uuid", uuidXPacket, o.XMP)...)
		}
		c.XMPOff = s + xh + 16
		c.Top = append(c.Top, Span{"uuid-xmp", s, len(out)})
		c.XMPBox = Span{"uuid-xmp", s, len(out)}
		topExtra()
		c.Map = append(c.Map, FieldSpan{"xmp.size", s, 4})
	}
	// --- uuid preview
	if o.Preview != nil {
		s := len(out)
		c.PrevW, c.PrevH = 1+l.Intn(4000), 1+l.Intn(3000)
		prvw := Box("PRVW", be32(0), be16(1), be16(uint16(c.PrevW)), be16(uint16(c.PrevH)), be16(1), be32(uint32(len(o.Preview)+o.PrvwField)), o.Preview)
		if o.Top64&8 != 0 {
			prvw = Box64("PRVW", prvw[8:])
		}
		prvwLen := len(prvw)
		if o.PrvwField != 0 {
			prvw = append(prvw, Box("free", ScreenTIFF(l.Sub().Bytes(64)))...)
		}
		ph := 8
		if o.Top64&4 != 0 {
			ph = 16
			out = append(out, Box64("uuid", uuidPreview, be32(0), be32(1), prvw)...)
			c.Map = append(c.Map, FieldSpan{"prvwuuid.largesize", s + 8, 8})
		} else {
			out = append(out, Box("uuid", uuidPreview, be32(0), be32(1), prvw)...)
		}
		c.PrevOff = s + ph + 16 + 8 + 24
		if o.Top64&8 != 0 {
			c.PrevOff += 8
		}
		c.Top = append(c.Top, Span{"uuid-prvw", s, len(out)})
		c.PrevUUID = Span{"uuid-prvw", s, len(out)}
		c.PRVW = Span{"PRVW", s + ph + 24, s + ph + 24 + prvwLen}
		topExtra()
		c.Map = append(c.Map, FieldSpan{"prvwuuid.size", s, 4}, FieldSpan{"prvw.size", s + ph + 24, 4}, FieldSpan{"prvw.jpegsize", c.PrevOff - 4, 4})
	}
	if o.Surround && l.Bool() {
		s := len(out)
		out = append(out, randBox(l)...)
		c.Top = append(c.Top, Span{"extra", s, len(out)})
	}
	if o.Tail == 0 {
		mdat()
	}
	for _, t := range c.Top {
		c.Map = append(c.Map, FieldSpan{"end:" + t.Type, t.End, 0})
	}
	c.Bytes = out
	return c
}

// ---------------------------------------------------------------------------------------------
// HEIF (ISO 23008-12): ftyp, meta(hdlr pitm iloc iinf(infe) iprp), mdat holding the Exif item

type HEIF struct {
	Bytes   []byte
	TIFFOff int
	Top     []Span
	Map     []FieldSpan
}

func fullBox(typ string, version byte, flags uint32, payload ...[]byte) []byte {
	vf := be32(uint32(version)<<24 | flags&0xffffff)
	return Box(typ, append([][]byte{vf}, payload...)...)
}

func infe(id uint16, typ string, extra []byte) []byte {
	p := append(be16(id), be16(0)...)
	p = append(p, typ...)
	p = append(p, 0) // item_name ""
	p = append(p, extra...)
	return fullBox("infe", 2, 0, p)
}

// infeV serialises an item-info entry of the given version: version 3 carries a 32-bit item ID,
// versions 0 and 1 the older layout (ID, protection index, name, content type, encoding).
func infeV(version byte, id uint16, typ string, extra []byte) []byte {
	switch version {
	case 3:
		p := append(be32(uint32(id)), be16(0)...)
		p = append(p, typ...)
		p = append(p, 0)
		p = append(p, extra...)
		return fullBox("infe", 3, 0, p)
	case 0, 1:
		p := append(be16(id), be16(0)...)
		p = append(p, 0) // item_name ""
		p = append(p, extra...)
		return fullBox("infe", version, 0, p)
	}
	return infe(id, typ, extra)
}

// DrawHEIF draws a HEIF-branded file whose Exif item holds the TIFF block. brand selects the
// ftyp variant (0 heic, 1 heix, 2 mif1+heic).
func DrawHEIF(l *core.Lane, tiff []byte, surround bool) *HEIF {
	return DrawHEIFOpts(l, tiff, surround, HEIFOpts{})
}

// HEIFOpts tunes DrawHEIFOpts.
type HEIFOpts struct {
	ExtraIloc int // further (redundant) iloc boxes in meta
	Brands    int // further compatible brands in ftyp
	// InfeVariants > 0 adds that many further item-info entries of type mime/uri with empty or
	// short names and content types (entries of 21, 22, 23 ... bytes)
	InfeVariants int
	// InfeVersions != 0: the further entries are written in item-info versions 3, 1 and 0 as well
	// (chosen per entry from this value); 0: all of them in version 2
	InfeVersions uint64
	// ItemFirst: the Exif item is the first thing in mdat (the coded image follows it); Mdat64: mdat
	// carries a 64-bit size; AVIFBrand: the file type box says avif (major brand, or mif1 with avif)
	ItemFirst, Mdat64, AVIFBrand bool
	// IinfFirst: the item-information box stands in front of the item-location box (the order in
	// which the library's box reader can resolve the Exif item; files are written in either order)
	IinfFirst bool
	// Iref: meta also holds an item-reference box (cdsc / thmb references, as HEIF files have)
	Iref bool
	// IrefBad (with Iref): the iref box declares more than meta has left and its first child more
	// than iref declares - a malformed variant in which error handling decides what is read next
	IrefBad bool
	// BaseOffset: the iloc entries carry a 4-byte base offset and the extent offsets count from it
	// (ISO/IEC 14496-12 8.11.3: an extent lies at base_offset + extent_offset)
	BaseOffset bool
	// SecondMdat: the two items lie in an mdat box each (the second item in the second box)
	SecondMdat bool
	// ManyItems: that many further coded-image items are listed in iinf and iloc between the first
	// item and the Exif item (tiles of a grid image); from about 190 the boxes exceed 4 KiB
	ManyItems int
	// MultiExtent: the coded image item is stored as two extents
	MultiExtent bool
	// TiffHdrOff > 0: the Exif item does not carry the usual "Exif\0\0" prefix; its
	// exif_tiff_header_offset field says TiffHdrOff-1 and that many zero bytes precede the TIFF
	// header (ISO/IEC 23008-12 A.2.1: the field counts the bytes between it and the header)
	TiffHdrOff int
	// IlocLastCut > 0: the item-location box is the last child of meta and its last bytes are
	// missing (the box, and meta with it, ends that many bytes early - inside its last entry)
	IlocLastCut int
}

func DrawHEIFOpts(l *core.Lane, tiff []byte, surround bool, ho HEIFOpts) *HEIF {
	h := &HEIF{}
	var ftyp []byte
	switch l.Intn(3) {
	case 0:
		ftyp = Box("ftyp", []byte("heic"), be32(0), []byte("mif1heic"))
	case 1:
		ftyp = Box("ftyp", []byte("heix"), be32(0), []byte("mif1heix"))
	default:
		ftyp = Box("ftyp", []byte("mif1"), be32(0), []byte("mif1heic"))
	}
	if ho.AVIFBrand {
		if l.Bool() {
			ftyp = Box("ftyp", []byte("avif"), be32(0), []byte("avifmif1"))
		} else {
			ftyp = Box("ftyp", []byte("mif1"), be32(0), []byte("mif1avif"))
		}
	}
	if ho.Brands > 0 {
		extra := []byte{}
		for i := 0; i < ho.Brands; i++ {
			extra = append(extra, []string{"miaf", "MiHB", "iso8", "mp41", "hevc", "msf1", "avif"}[i%7]...)
		}
		ftyp = append(ftyp, extra...)
		binary.BigEndian.PutUint32(ftyp, uint32(len(ftyp)))
	}
	hdlr := fullBox("hdlr", 0, 0, be32(0), []byte("pict"), make([]byte, 12), []byte{0})
	pitm := fullBox("pitm", 0, 0, be16(1))
	infes := [][]byte{infe(1, "hvc1", nil)}
	for i := 0; i < ho.ManyItems; i++ {
		infes = append(infes, infe(uint16(100+i), "hvc1", nil))
	}
	infes = append(infes, infe(2, "Exif", nil))
	for i := 0; i < ho.InfeVariants; i++ {
		typ := []string{"mime", "uri ", "mime"}[i%3]
		var extra []byte // content_type / uri string, possibly absent, possibly unterminated
		switch (i + ho.ExtraIloc) % 4 {
		case 1:
			extra = []byte{0}
		case 2:
			extra = []byte("a\x00")
		case 3:
			extra = []byte("application/rdf+xml\x00")
		}
		if ho.InfeVersions != 0 {
			v := []byte{3, 2, 3, 1, 0, 3, 2, 3}[(ho.InfeVersions>>(3*uint(i)))&7]
			infes = append(infes, infeV(v, uint16(3+i), typ, extra))
			continue
		}
		infes = append(infes, infe(uint16(3+i), typ, extra))
	}
	nInfe := len(infes)
	switch ho.InfeVariants % 4 {
	case 1:
		infes = append(infes, make([]byte, 8)) // zero padding at the end of iinf (a size-0 non-entry)
	case 2:
		infes = append(infes, Box("free", []byte{1, 2, 3}))
	case 3:
		infes = append(infes[:1], append([][]byte{Box("skip")}, infes[1:]...)...) // an empty box between entries
	}
	iinf := fullBox("iinf", 0, 0, append([][]byte{be16(uint16(nInfe))}, infes...)...)
	iprp := Box("iprp", Box("ipco", fullBox("ispe", 0, 0, be32(4000), be32(3000))), fullBox("ipma", 0, 0, be32(1), be16(1), []byte{1, 0x81}))
	// Exif item payload: exif_tiff_header_offset(4) = 6, "Exif\0\0", TIFF
	item := append(be32(6), []byte("Exif\x00\x00")...)
	if ho.TiffHdrOff > 0 {
		item = append(be32(uint32(ho.TiffHdrOff-1)), make([]byte, ho.TiffHdrOff-1)...)
	}
	tiffRel := len(item)
	item = append(item, tiff...)
	imgData := ScreenTIFF(l.Sub().Bytes(32 + l.Intn(400)))
	// iloc v0: offset_size 4, length_size 4, base_offset_size 0; two items with one extent each
	mkIloc := func(off1, len1, off2, len2 uint32) []byte {
		p := []byte{0x44, 0x00}
		if ho.BaseOffset {
			p[1] = 0x40
		}
		p = append(p, be16(uint16(2+ho.ManyItems))...)
		entry := func(id uint16, off uint32, lens ...uint32) {
			p = append(p, be16(id)...)
			p = append(p, be16(0)...)
			if ho.BaseOffset {
				d := uint32(5)
				if off < d {
					d = off
				}
				p = append(p, be32(off-d)...)
				off = d
			}
			p = append(p, be16(uint16(len(lens)))...)
			for _, n := range lens {
				p = append(p, be32(off)...)
				p = append(p, be32(n)...)
				off += n
			}
		}
		if ho.MultiExtent && len1 >= 2 {
			entry(1, off1, len1/2, len1-len1/2)
		} else if ho.MultiExtent {
			entry(1, off1, len1, 0)
		} else {
			entry(1, off1, len1)
		}
		for i := 0; i < ho.ManyItems; i++ {
			entry(uint16(100+i), off1, 1)
		}
		entry(2, off2, len2)
		return fullBox("iloc", 0, 0, p)
	}
	var extra []byte
	if surround && l.Bool() {
		extra = randBox(l)
	}
	for i := 0; i < ho.ExtraIloc; i++ {
		extra = append(extra, mkIloc(0, 0, 0, 0)...)
	}
	var iref []byte // in front of iloc and iinf: what goes wrong inside it can hide them
	if ho.Iref {
		iref = fullBox("iref", 0, 0, Box("cdsc", be16(2), be16(1), be16(1)), Box("thmb", be16(3), be16(1), be16(1)))
		if ho.IrefBad {
			// a bare child header that declares 16 MiB, and nothing else
			iref = fullBox("iref", 0, 0, be32(0x00ffffff), []byte("dimg"))
		}
	}
	mkMeta := func(iloc []byte) []byte {
		if ho.IlocLastCut > 0 {
			cut := ho.IlocLastCut
			if cut > len(iloc)-18 {
				cut = len(iloc) - 18
			}
			iloc = append([]byte(nil), iloc[:len(iloc)-cut]...)
			binary.BigEndian.PutUint32(iloc, uint32(len(iloc)))
			return fullBox("meta", 0, 0, hdlr, pitm, iref, iinf, iprp, extra, iloc)
		}
		if ho.IinfFirst {
			return fullBox("meta", 0, 0, hdlr, pitm, iref, iinf, iloc, iprp, extra)
		}
		return fullBox("meta", 0, 0, hdlr, pitm, iref, iloc, iinf, iprp, extra)
	}
	metaLen := len(mkMeta(mkIloc(0, 0, 0, 0)))
	var pre []byte
	if surround && l.Chance(1, 3) {
		pre = Box("free", ScreenTIFF(l.Sub().Bytes(l.Intn(100))))
	}
	mdatStart := len(ftyp) + metaLen + len(pre)
	mdatHdr := 8
	if ho.Mdat64 {
		mdatHdr = 16
	}
	imgOff := mdatStart + mdatHdr
	exifOff := imgOff + len(imgData)
	if ho.SecondMdat {
		exifOff += 8
	}
	if ho.ItemFirst {
		exifOff = mdatStart + mdatHdr
		imgOff = exifOff + len(item)
		if ho.SecondMdat {
			imgOff += 8
		}
	}
	meta := mkMeta(mkIloc(uint32(imgOff), uint32(len(imgData)), uint32(exifOff), uint32(len(item))))
	out := append([]byte(nil), ftyp...)
	h.Top = append(h.Top, Span{"ftyp", 0, len(out)})
	s := len(out)
	out = append(out, meta...)
	h.Top = append(h.Top, Span{"meta", s, len(out)})
	if pre != nil {
		s = len(out)
		out = append(out, pre...)
		h.Top = append(h.Top, Span{"free", s, len(out)})
	}
	s = len(out)
	// the header search needs a 32-byte window at the signature: other item data follows the
	// Exif item inside mdat (as in real files, where the coded image usually does)
	trail := ScreenTIFF(l.Sub().Bytes(32 + l.Intn(64)))
	first, second := imgData, item
	if ho.ItemFirst {
		first, second = item, imgData
	}
	var none []byte
	if ho.SecondMdat {
		second, none = none, second
	}
	trail1 := trail
	if ho.SecondMdat {
		trail1 = nil
	}
	if ho.Mdat64 {
		out = append(out, Box64("mdat", first, second, trail1)...)
	} else {
		out = append(out, Box("mdat", first, second, trail1)...)
	}
	h.Top = append(h.Top, Span{"mdat", s, len(out)})
	if ho.SecondMdat {
		s = len(out)
		out = append(out, Box("mdat", none, trail)...)
		h.Top = append(h.Top, Span{"mdat", s, len(out)})
	}
	h.TIFFOff = exifOff + tiffRel
	if surround && l.Bool() {
		out = append(out, ScreenTIFF(l.Sub().Bytes(l.Intn(300)))...)
	}
	for _, t := range h.Top {
		h.Map = append(h.Map, FieldSpan{"box.size:" + t.Type, t.Start, 4}, FieldSpan{"end:" + t.Type, t.End, 0})
	}
	// size/count fields inside meta: located by their four-ccs in the serialised box
	for i := len(ftyp); i+16 < len(ftyp)+len(meta); i++ {
		switch string(out[i+4 : i+8]) {
		case "iloc":
			h.Map = append(h.Map, FieldSpan{"iloc.size", i, 4}, FieldSpan{"iloc.widths", i + 12, 2}, FieldSpan{"iloc.count", i + 14, 2})
		case "iinf":
			h.Map = append(h.Map, FieldSpan{"iinf.size", i, 4}, FieldSpan{"iinf.count", i + 12, 2})
		case "infe":
			h.Map = append(h.Map, FieldSpan{"infe.size", i, 4})
		case "ipma":
			h.Map = append(h.Map, FieldSpan{"ipma.size", i, 4}, FieldSpan{"ipma.count", i + 12, 4})
		case "ipco", "iprp", "pitm", "hdlr", "ispe", "iref", "cdsc", "thmb":
			h.Map = append(h.Map, FieldSpan{string(out[i+4:i+8]) + ".size", i, 4})
		}
	}
	if ho.Iref && ho.IrefBad {
		for i := len(ftyp); i+16 < len(ftyp)+len(meta); i++ {
			if string(out[i+4:i+8]) == "iref" {
				binary.BigEndian.PutUint32(out[i:], uint32(len(meta)+1000))
				break
			}
		}
	}
	h.Map = append(h.Map, FieldSpan{"end:exifitem", exifOff + len(item), 0})
	h.Bytes = out
	return h
}

// TIFFVariant wraps a TIFF block as a TIFF-family file: 0 bare, 1 DNG-like trailing image data.
func TIFFFile(l *core.Lane, tiff []byte, surround bool) []byte {
	out := append([]byte(nil), tiff...)
	if surround {
		out = append(out, ScreenTIFF(l.Sub().Bytes(l.Intn(600)))...)
	}
	// every decode path peeks a 32-byte header window
	for len(out) < 64 {
		out = append(out, 0)
	}
	return out
}

// EdgeOpts describes a small ISOBMFF file in which the last child of a container is cut short
// by its parent (a bare or partial header) and sits at a chosen absolute offset - typically next
// to a multiple of a reader's buffer size, where a header is split between two fills.
type EdgeOpts struct {
	Layout   int    // 0 moov, 1 moov>uuid(Canon), 2 meta (HEIF), 3 meta>iprp (HEIF)
	At       int    // absolute offset of the trailing child (reached with a 'free' box in front)
	Remain   int    // bytes the parent has left for the trailing child (0..24)
	Size     uint32 // the trailing child's 32-bit size field
	Type     string // its four-character type
	Follow   int    // bytes after the parent (a top-level mdat or nothing)
	PadInner bool   // pad with a box inside the container (else: a top-level free box before it)
}

// EdgeBoxFile builds the file described by o. The trailing child consists of its size field, its
// type and filler, cut to o.Remain bytes.
func EdgeBoxFile(o EdgeOpts) []byte {
	tail := append(be32(o.Size), (o.Type + "    ")[:4]...)
	for i := 0; len(tail) < 24; i++ {
		tail = append(tail, byte(0x10+i))
	}
	tail = tail[:o.Remain]
	var ftyp []byte
	if o.Layout < 2 {
		ftyp = Box("ftyp", []byte("crx "), be32(1), []byte("crx isom"))
	} else {
		ftyp = Box("ftyp", []byte("heic"), be32(0), []byte("mif1heic"))
	}
	// bytes between ftyp and the padding: headers of the enclosing containers
	var pre int
	switch o.Layout {
	case 0:
		pre = 8
	case 1:
		pre = 8 + 8 + 16
	case 2:
		pre = 12 + len(fullBox("hdlr", 0, 0, be32(0), []byte("pict"), make([]byte, 13)))
	default:
		pre = 12 + len(fullBox("hdlr", 0, 0, be32(0), []byte("pict"), make([]byte, 13))) + 8
	}
	pad := o.At - len(ftyp) - pre
	if pad < 8 {
		pad = 8
	}
	free := Box("free", make([]byte, pad-8))
	var inner, top []byte
	if o.PadInner {
		inner = free
	} else {
		top = free
	}
	hdlr := fullBox("hdlr", 0, 0, be32(0), []byte("pict"), make([]byte, 13))
	var body []byte
	switch o.Layout {
	case 0:
		body = Box("moov", inner, tail)
	case 1:
		body = Box("moov", Box("uuid", uuidCanonMeta, inner, tail))
	case 2:
		body = fullBox("meta", 0, 0, hdlr, inner, tail)
	default:
		body = fullBox("meta", 0, 0, hdlr, Box("iprp", inner, tail))
	}
	out := append(append(append([]byte(nil), ftyp...), top...), body...)
	if o.Follow > 0 {
		out = append(out, Box("mdat", make([]byte, o.Follow))...)
	}
	return out
}

// RepeatOpts describes a CR3-shaped file that says the same thing many times: many CMT boxes
// whose directories are full of long, overlapping ASCII values, many preview boxes that declare
// more than they hold. Each piece is harmless; the question is what the sum costs.
type RepeatOpts struct {
	CMT      int    // CMT boxes inside the Canon uuid box
	CMTType  int    // 0: all CMT1; 1: CMT1..CMT4 in turn
	Tags     int    // ASCII entries per directory (string fields of that directory)
	Count    uint32 // declared count of each entry
	Step     int    // distance between the values of consecutive entries (1: overlapping)
	Data     int    // bytes behind the directory
	Big      bool   // byte order of the TIFF blocks
	Prvw     int    // preview uuid boxes
	PrvwIn   bool   // inside moov (else at top level)
	PrvwSize uint32 // declared jpeg size of each PRVW box
	PrvwData int    // bytes each PRVW box actually holds
}

var repeatTagIDs = [][]uint16{
	{0x010f, 0x0110, 0x0131, 0x013b, 0x8298, 0x010e, 0x0132}, // IFD0: Make Model Software Artist Copyright ImageDescription DateTime
	{0xa434, 0xa433, 0xa431, 0xa430, 0x9003, 0x9004, 0xa435}, // Exif: LensModel LensMake BodySerial Owner DateOrig DateDig LensSerial
	{0x0006, 0x0007, 0x0095, 0x0096},                         // maker note: Canon strings
	{0x001d, 0x0001, 0x0003, 0x0012},                         // GPS: DateStamp LatRef LonRef MapDatum
}

// WideTIFF builds one TIFF block of the kind RepeatOpts describes (kind selects the tag ids: 0
// IFD0, 1 Exif, 2 maker note, 3 GPS).
func WideTIFF(o RepeatOpts, kind int) []byte {
	var bo binary.ByteOrder = binary.LittleEndian
	if o.Big {
		bo = binary.BigEndian
	}
	return wideTIFF(o, bo, kind)
}

// RepeatJPEG: SOI, n APP1 Exif segments (and as many XMP segments when xmp is set), DQT, data.
func RepeatJPEG(o RepeatOpts, n int, xmp []byte) []byte {
	out := []byte{0xff, 0xd8}
	seg := func(marker byte, payload []byte) {
		if len(payload) > 65533 {
			payload = payload[:65533]
		}
		out = append(out, 0xff, marker, byte((len(payload)+2)>>8), byte(len(payload)+2))
		out = append(out, payload...)
	}
	for i := 0; i < n; i++ {
		seg(0xe1, append([]byte("Exif\x00\x00"), WideTIFF(o, 0)...))
		if xmp != nil {
			seg(0xe1, append([]byte("http://ns.adobe.com/xap/1.0/\x00"), xmp...))
		}
	}
	seg(0xdb, make([]byte, 65))
	return append(out, make([]byte, 128)...)
}

// RepeatPNG: signature, IHDR, n eXIf chunks, IDAT, IEND.
func RepeatPNG(o RepeatOpts, n int) []byte {
	out := []byte("\x89PNG\r\n\x1a\n")
	out = pngChunk(out, "IHDR", []byte{0, 0, 0, 16, 0, 0, 0, 16, 8, 2, 0, 0, 0})
	for i := 0; i < n; i++ {
		out = pngChunk(out, "eXIf", WideTIFF(o, 0))
	}
	out = pngChunk(out, "IDAT", make([]byte, 32))
	return pngChunk(out, "IEND", nil)
}

func wideTIFF(o RepeatOpts, bo binary.ByteOrder, kind int) []byte {
	n := o.Tags
	b := make([]byte, 8+2+12*n+4+o.Data)
	if o.Big {
		copy(b, "MM\x00*")
	} else {
		copy(b, "II*\x00")
	}
	bo.PutUint32(b[4:], 8)
	bo.PutUint16(b[8:], uint16(n))
	dataOff := 8 + 2 + 12*n + 4
	ids := repeatTagIDs[kind]
	for i := 0; i < n; i++ {
		p := 10 + 12*i
		bo.PutUint16(b[p:], ids[i%len(ids)])
		bo.PutUint16(b[p+2:], 2)
		bo.PutUint32(b[p+4:], o.Count)
		bo.PutUint32(b[p+8:], uint32(dataOff+i*o.Step))
	}
	for i := dataOff; i < len(b); i++ {
		b[i] = "Canon EOS R5 lens 24-70mm F2.8 "[i%31]
	}
	return b
}

// RepeatCR3 builds the file described by o.
func RepeatCR3(o RepeatOpts) []byte {
	var bo binary.ByteOrder = binary.LittleEndian
	if o.Big {
		bo = binary.BigEndian
	}
	tiff := func(kind int) []byte { return wideTIFF(o, bo, kind) }
	inner := Box("CNCV", []byte("CanonCR3_001/00.09.00/00.00.00"))
	for i := 0; i < o.CMT; i++ {
		k := 0
		if o.CMTType == 1 {
			k = i % 4
		}
		inner = append(inner, Box("CMT"+string(rune('1'+k)), tiff(k))...)
	}
	prvw := func() []byte {
		p := Box("PRVW", be32(0), be16(1), be16(160), be16(120), be16(1), be32(o.PrvwSize), append([]byte{0xff, 0xd8, 0xff, 0xdb}, make([]byte, o.PrvwData)...))
		return Box("uuid", uuidPreview, be32(0), be32(1), p)
	}
	moov := Box("uuid", uuidCanonMeta, inner)
	var top []byte
	for i := 0; i < o.Prvw; i++ {
		if o.PrvwIn {
			moov = append(moov, prvw()...)
		} else {
			top = append(top, prvw()...)
		}
	}
	out := Box("ftyp", []byte("crx "), be32(1), []byte("crx isom"))
	out = append(out, Box("moov", moov)...)
	out = append(out, top...)
	out = append(out, Box("mdat", make([]byte, 64))...)
	return out
}

// ManyTiny builds a file that consists of n copies of the smallest thing of one kind:
// 0: a HEIF meta box holding n empty hdlr (sub 0), iref (1) or iinf (2) boxes
// 1: a CR3 moov box holding n minimal preview uuid boxes (a PRVW header and nothing else)
// 2: a JPEG with n tiny XMP APP1 segments
// 3: an XMP packet with n date properties whose value is a date followed by junk bytes
// 4: a CR3 with n minimal CMT boxes; 5: a JPEG with n minimal Exif segments; 6: an XMP array of n items
// 9: an AVIF meta box with n iprp/iref boxes too short for a child; 10: an XMP id/date/number property with n items
// 11: an AVIF meta box with a large iloc box in front of n empty iinf boxes
func ManyTiny(kind, sub, n, junk int) []byte {
	switch kind {
	case 0:
		typ := []string{"hdlr", "iref", "iinf", "iinf"}[sub%4]
		inner := make([]byte, 0, 12*n+64)
		one := Box(typ)
		if sub%4 == 3 {
			one = Box(typ, be32(0)) // ends behind the flags word
		}
		for i := 0; i < n; i++ {
			inner = append(inner, one...)
		}
		out := Box("ftyp", []byte("heic"), be32(0), []byte("mif1heic"))
		out = append(out, fullBox("meta", 0, 0, inner)...)
		return append(out, Box("mdat", make([]byte, 64))...)
	case 1:
		one := Box("uuid", uuidPreview, be32(0), be32(1), Box("PRVW", be32(0), be16(1), be16(160), be16(120), be16(1), be32(uint32(junk))))
		switch sub % 4 {
		case 3:
			one = Box("zzzz") // a box type nobody knows
		case 1:
			one = Box("uuid") // no room for the uuid itself
		case 2:
			one = Box("uuid", uuidPreview) // the preview uuid and nothing behind it
		}
		moov := Box("uuid", uuidCanonMeta, Box("CNCV", []byte("CanonCR3_001/00.09.00/00.00.00")))
		for i := 0; i < n; i++ {
			moov = append(moov, one...)
		}
		out := Box("ftyp", []byte("crx "), be32(1), []byte("crx isom"))
		out = append(out, Box("moov", moov)...)
		return append(out, Box("mdat", make([]byte, 64))...)
	case 2:
		out := []byte{0xff, 0xd8}
		pkt := append([]byte("http://ns.adobe.com/xap/1.0/\x00"), "<x:xmpmeta/>"...)
		for i := 0; i < n; i++ {
			out = append(out, 0xff, 0xe1, byte((len(pkt)+2)>>8), byte(len(pkt)+2))
			out = append(out, pkt...)
		}
		out = append(out, 0xff, 0xdb, 0, 67)
		out = append(out, make([]byte, 65)...)
		return append(out, make([]byte, 128)...)
	case 8:
		// an AVIF-branded file whose iloc box holds n items of 6 bytes (all offset, length and base
		// offset fields zero bytes wide) that each declare 65535 extents
		// (600 items per iloc box, so that each box fits the readers' 4 KiB look-ahead)
		var ilocs []byte
		for done := 0; done < n; done += 600 {
			k := n - done
			if k > 600 {
				k = 600
			}
			items := make([]byte, 0, 6*k)
			for i := 0; i < k; i++ {
				items = append(items, be16(uint16(i+1))...)
				items = append(items, be16(0)...)
				items = append(items, be16(0xffff)...)
			}
			ilocs = append(ilocs, fullBox("iloc", 0, 0, []byte{0x00, 0x00}, be16(uint16(k)), items)...)
		}
		out := Box("ftyp", []byte("avif"), be32(0), []byte("avifmif1"))
		out = append(out, fullBox("meta", 0, 0, ilocs)...)
		return append(out, Box("mdat", make([]byte, 64))...)
	case 9:
		// an AVIF-branded file (read by the box reader) whose meta box holds n iprp (sub 0, 2) or
		// iref (1, 3) boxes with 8 (sub 0, 1) or 12 payload bytes: too short for a child's header
		typ := []string{"iprp", "iref"}[sub%2]
		one := Box(typ, make([]byte, 8+4*(sub/2%2)))
		inner := make([]byte, 0, len(one)*n)
		for i := 0; i < n; i++ {
			inner = append(inner, one...)
		}
		out := Box("ftyp", []byte("avif"), be32(0), []byte("avifmif1"))
		out = append(out, fullBox("meta", 0, 0, inner)...)
		return append(out, Box("mdat", make([]byte, 64))...)
	case 12:
		// a CR3 moov box holding n preview uuid boxes that each declare 1 MiB and hold 4 (sub even)
		// or 16 bytes
		one := Box("uuid", uuidPreview, be32(0), be32(1), Box("PRVW", be32(0), be16(1), be16(160), be16(120), be16(1), be32(1<<20), make([]byte, 4+12*(sub%2))))
		moov := Box("uuid", uuidCanonMeta, Box("CNCV", []byte("CanonCR3_001/00.09.00/00.00.00")))
		for i := 0; i < n; i++ {
			moov = append(moov, one...)
		}
		out := Box("ftyp", []byte("crx "), be32(1), []byte("crx isom"))
		out = append(out, Box("moov", moov)...)
		return append(out, Box("mdat", make([]byte, 64))...)
	case 11:
		// an AVIF-branded file whose meta box holds one iloc box with min(n, 65535) six-byte entries
		// in front of n empty iinf boxes (iloc first is the order libavif writes): what is kept of
		// the first must not be walked again for each of the others
		k := n
		if k > 65535 {
			k = 65535
		}
		items := make([]byte, 0, 6*k)
		for i := 0; i < k; i++ {
			items = append(items, be16(uint16(i+1))...)
			items = append(items, be16(0)...)
			items = append(items, be16(0)...)
		}
		inner := fullBox("iloc", 0, 0, []byte{0x00, 0x00}, be16(uint16(k)), items)
		one := fullBox("iinf", 0, 0, be16(0))
		for i := 0; i < n; i++ {
			inner = append(inner, one...)
		}
		out := Box("ftyp", []byte("avif"), be32(0), []byte("avifmif1"))
		out = append(out, fullBox("meta", 0, 0, inner)...)
		return append(out, Box("mdat", make([]byte, 64))...)
	case 10:
		// an XMP packet in which one property that is parsed (an id, a date, a number) holds an array
		// of n items that are not of its kind, written in full or as compactly as the reader accepts
		prop := []string{"xmpMM:DocumentID", "xmp:CreateDate", "xmpMM:InstanceID", "exif:DateTimeOriginal", "xmp:Rating", "xmpMM:OriginalDocumentID", "xmp:ModifyDate", "aux:ApproximateFocusDistance", "dc:subject", "dc:creator"}[sub%10]
		item := []string{"<rdf:li>x</rdf:li>", "<rdf:li>x", "<:>x", "<rdf:li>2020-01-02T03:04:0</rdf:li>", "<rdf:li>2006-13-02T1:04:05", "<rdf:li>2006-02-31T01:04:05Z"}[junk%6]
		out := []byte("<x:xmpmeta xmlns:x='adobe:ns:meta/'><rdf:RDF xmlns:rdf='http://www.w3.org/1999/02/22-rdf-syntax-ns#'><rdf:Description rdf:about='' xmlns:xmp='http://ns.adobe.com/xap/1.0/' xmlns:xmpMM='http://ns.adobe.com/xap/1.0/mm/' xmlns:exif='http://ns.adobe.com/exif/1.0/' xmlns:aux='http://ns.adobe.com/exif/1.0/aux/' xmlns:dc='http://purl.org/dc/elements/1.1/'><" + prop + "><rdf:Bag>")
		for i := 0; i < n; i++ {
			out = append(out, item...)
		}
		return append(out, "</rdf:Bag></"+prop+"></rdf:Description></rdf:RDF></x:xmpmeta>"...)
	case 4:
		// a CR3 whose Canon uuid box holds n minimal CMT boxes (a TIFF header and an empty directory)
		one := Box("CMT"+string(rune('1'+sub%4)), []byte("II*\x00\x08\x00\x00\x00\x00\x00\x00\x00\x00\x00"))
		inner := Box("CNCV", []byte("CanonCR3_001/00.09.00/00.00.00"))
		for i := 0; i < n; i++ {
			inner = append(inner, one...)
		}
		out := Box("ftyp", []byte("crx "), be32(1), []byte("crx isom"))
		out = append(out, Box("moov", Box("uuid", uuidCanonMeta, inner))...)
		return append(out, Box("mdat", make([]byte, 64))...)
	case 5:
		// a JPEG with n minimal Exif APP1 segments
		out := []byte{0xff, 0xd8}
		pkt := []byte("Exif\x00\x00II*\x00\x08\x00\x00\x00\x00\x00\x00\x00\x00\x00")
		for i := 0; i < n; i++ {
			out = append(out, 0xff, 0xe1, byte((len(pkt)+2)>>8), byte(len(pkt)+2))
			out = append(out, pkt...)
		}
		out = append(out, 0xff, 0xdb, 0, 67)
		out = append(out, make([]byte, 65)...)
		return append(out, make([]byte, 128)...)
	case 6:
		// an XMP packet whose dc:title (sub 0), dc:subject (1) or dc:creator (2) array holds n items
		prop := []string{"dc:title", "dc:subject", "dc:creator"}[sub%3]
		arr := []string{"rdf:Alt", "rdf:Bag", "rdf:Seq"}[sub%3]
		out := []byte("<x:xmpmeta xmlns:x='adobe:ns:meta/'><rdf:RDF xmlns:rdf='http://www.w3.org/1999/02/22-rdf-syntax-ns#'><rdf:Description rdf:about='' xmlns:dc='http://purl.org/dc/elements/1.1/'><" + prop + "><" + arr + ">")
		for i := 0; i < n; i++ {
			if sub%3 == 0 {
				out = append(out, "<rdf:li xml:lang='x-default'>t</rdf:li>"...)
			} else {
				out = append(out, "<rdf:li>t</rdf:li>"...)
			}
		}
		return append(out, "</"+arr+"></"+prop+"></rdf:Description></rdf:RDF></x:xmpmeta>"...)
	default:
		j := make([]byte, junk)
		for i := range j {
			j[i] = []byte{1, 'x', 0x7f, ' '}[sub%4]
		}
		out := []byte("<x:xmpmeta xmlns:x='adobe:ns:meta/'><rdf:RDF xmlns:rdf='http://www.w3.org/1999/02/22-rdf-syntax-ns#'>")
		for i := 0; i < n; i++ {
			out = append(out, "<rdf:Description rdf:about='' xmlns:xmp='http://ns.adobe.com/xap/1.0/' xmp:CreateDate='2020-01-02T03:04:05"...)
			out = append(out, j...)
			out = append(out, "'/>"...)
		}
		return append(out, "</rdf:RDF></x:xmpmeta>"...)
	}
}

// AVIFIrefOverstated builds an AVIF-branded file (ftyp, meta{iref, iinf, iloc}, mdat with the Exif
// item) whose iref box declares over bytes more than it holds and holds nothing but a child
// header that declares 16 MiB: a malformed tree in which what is read next depends on how the
// failure to close that child is handled. tiff is the Exif payload.
func AVIFIrefOverstated(tiff []byte, over int) []byte {
	ftyp := Box("ftyp", []byte("avif"), be32(0), []byte("avif"), []byte("mif1"))
	iinf := Box("iinf", be32(0), be16(1), Box("infe", be32(2<<24), be16(1), be16(0), []byte("Exif"), []byte{0}))
	item := append(be32(6), "Exif\x00\x00"...)
	item = append(item, tiff...)
	build := func(exifOffset uint32) ([]byte, int) {
		iloc := Box("iloc", be32(0), []byte{0x44, 0x00}, be16(1), be16(1), be16(0), be16(1), be32(exifOffset), be32(uint32(len(item)+8+24)))
		irefPayload := append(be32(0), append(be32(0x00ffffff), "dimg"...)...)
		iref := append(be32(uint32(8+len(irefPayload)+len(iinf)+len(iloc)+over)), "iref"...)
		iref = append(iref, irefPayload...)
		meta := Box("meta", be32(0), iref, iinf, iloc)
		file := append(append([]byte(nil), ftyp...), meta...)
		start := len(file)
		return append(file, Box("mdat", make([]byte, 8), item, make([]byte, 64))...), start
	}
	_, start := build(0)
	f, _ := build(uint32(start + 16))
	return f
}
