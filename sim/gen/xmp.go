package gen

import (
	"fmt"
	"math"
	"strconv"
	"strings"
	"time"

	"verifsim/core"
)

// XMP packets (XMP specification part 1, RDF/XML serialisation): a property record over the
// tiff:, exif:, aux:, xmp:/xap:, xmpMM:, crs: and dc: namespaces with typed values, and the
// serialiser's choices per property (attribute or element form, quote character, order, white
// space, unknown properties and namespaces interleaved, leading bytes before the root element).
// Expected values are written in the harness's canonical text form (quoted strings, decimal
// integers, IEEE bit patterns for floats, canonical times, hex for byte arrays).

// XProp is one property of the record.
type XProp struct {
	NS, Name string
	Array    string   // "" simple, "Seq", "Bag", "Alt"
	Val      string   // simple value text
	Items    []string // array items
	Path     string   // canonical path of the result field ("XMP.Tiff.Make"); arrays: base path
	Want     string   // expected canonical text (simple)
	WantF    float64  // numeric expectation (when IsF)
	IsF      bool
	Bits     int
	Long     bool // value longer than the reader's window: an error, and the field stays zero or right
	// NoJudge: a legal form of the value that a reader may not understand (a date of reduced
	// precision): what is reported for it is not judged; everything around it still is
	NoJudge bool
	// Solo: an empty array written as an empty-element tag (<rdf:Bag/>)
	Solo bool
}

type XRecord struct {
	Props []*XProp
}

var xmlnsURI = map[string]string{
	"tiff": "http://ns.adobe.com/tiff/1.0/", "exif": "http://ns.adobe.com/exif/1.0/", "aux": "http://ns.adobe.com/exif/1.0/aux/",
	"xmp": "http://ns.adobe.com/xap/1.0/", "xap": "http://ns.adobe.com/xap/1.0/", "xmpMM": "http://ns.adobe.com/xap/1.0/mm/", "xapMM": "http://ns.adobe.com/xap/1.0/mm/",
	"crs": "http://ns.adobe.com/camera-raw-settings/1.0/", "dc": "http://purl.org/dc/elements/1.1/", "photoshop": "http://ns.adobe.com/photoshop/1.0/",
	"zz": "http://example.org/zz/1.0/", "lr": "http://ns.adobe.com/lightroom/1.0/",
}

const xmlSafe = "abcdefghijklmnopqrstuvwxyzABCDEFGHIJKLMNOPQRSTUVWXYZ0123456789 .,:;_-+/()[]{}!?*#@=%$^~|"

// xmlText draws a value of n bytes without markup characters, not starting or ending with a
// blank (white space around values is the serialiser's, not the value's).
func xmlText(l *core.Lane, n int) string {
	f := l.Sub()
	b := make([]byte, n)
	for i := range b {
		b[i] = xmlSafe[f.Intn(len(xmlSafe))]
	}
	if b[0] == ' ' {
		b[0] = 'x'
	}
	if b[n-1] == ' ' {
		b[n-1] = 'x'
	}
	if x := XDateExtra; x != nil && x.Chance(1, 12) {
		// '>' is legal unescaped in character data and in attribute values: a value may begin with it
		b[0] = '>'
		if n > 2 && x.Bool() {
			b[0], b[1] = '/', '>'
		}
	}
	return string(b)
}

// valueLen draws a value length clustered around the reader's look-ahead steps.
func valueLen(l *core.Lane) int {
	switch l.Intn(6) {
	case 0:
		return 1 + l.Intn(40)
	case 1:
		return 124 + l.Intn(10) // 124..133
	case 2:
		return 250 + l.Intn(12) // 250..261
	case 3:
		return 506 + l.Intn(12)
	case 4:
		return 1 + l.Intn(1024)
	default:
		return 760 + l.Intn(12)
	}
}

func qs(s string) string { return strconv.Quote(s) }

func canonT(t time.Time) string {
	name, off := t.Zone()
	if t.IsZero() && name == "UTC" && off == 0 {
		return "zero"
	}
	return fmt.Sprintf("%d.%09d/%s/%d", t.Unix(), t.Nanosecond(), name, off)
}

// drawXDate draws a date in one of the three layouts the XMP specification's usage in the
// wild reduces to here: with zone designator (Z or a non-zero +hh:mm), with two fractional
// digits and no zone, plain.
func drawXDate(l *core.Lane) (text, want string) {
	text, want = drawXDateBase(l)
	if x := XDateExtra; x != nil && x.Chance(1, 8) {
		// the XMP date format allows reduced precision: YYYY, YYYY-MM, YYYY-MM-DD, YYYY-MM-DDThh:mmTZD
		y, mo, d, h, mi := 1971+x.Intn(120), 1+x.Intn(12), 1+x.Intn(28), x.Intn(24), x.Intn(60)
		text = []string{fmt.Sprintf("%04d", y), fmt.Sprintf("%04d-%02d", y, mo), fmt.Sprintf("%04d-%02d-%02d", y, mo, d),
			fmt.Sprintf("%04d-%02d-%02dT%02d:%02d", y, mo, d, h, mi), fmt.Sprintf("%04d-%02d-%02dT%02d:%02d+01:00", y, mo, d, h, mi)}[x.Intn(5)]
		return text, "*"
	}
	if x := XDateExtra; x != nil && x.Chance(1, 3) {
		// further shapes of the XMP date format (YYYY-MM-DDThh:mm:ss.sTZD): a fraction of 1..9
		// digits, with or without a zone designator
		y, mo, d := 1971+x.Intn(120), 1+x.Intn(12), 1+x.Intn(28)
		h, mi, s := x.Intn(24), x.Intn(60), x.Intn(60)
		nd := 1 + x.Intn(9)
		frac := 0
		for i := 0; i < nd; i++ {
			frac = frac*10 + x.Intn(10)
		}
		ns := frac
		for i := nd; i < 9; i++ {
			ns *= 10
		}
		text = fmt.Sprintf("%04d-%02d-%02dT%02d:%02d:%02d.%0*d", y, mo, d, h, mi, s, nd, frac)
		loc := time.UTC
		switch x.Intn(3) {
		case 1:
			text += "Z"
		case 2:
			oh, om := 1+x.Intn(13), []int{0, 30, 45}[x.Intn(3)]
			sign, secs := "+", oh*3600+om*60
			if x.Bool() {
				sign, secs = "-", -secs
			}
			text += fmt.Sprintf("%s%02d:%02d", sign, oh, om)
			loc = time.FixedZone("", secs)
		}
		want = canonT(time.Date(y, time.Month(mo), d, h, mi, s, ns, loc))
	}
	return
}

// XDateExtra, when set (by the C13 campaign, to a side lane), lets drawXDate replace a date by
// one of the further shapes; the record lane is consumed as before.
var XDateExtra *core.Lane

func drawXDateBase(l *core.Lane) (text, want string) {
	y, mo, d := 1971+l.Intn(120), 1+l.Intn(12), 1+l.Intn(28)
	h, mi, s := l.Intn(24), l.Intn(60), l.Intn(60)
	base := fmt.Sprintf("%04d-%02d-%02dT%02d:%02d:%02d", y, mo, d, h, mi, s)
	switch l.Intn(4) {
	case 0:
		t := time.Date(y, time.Month(mo), d, h, mi, s, 0, time.UTC)
		return base + "Z", canonT(t)
	case 1:
		oh, om := 1+l.Intn(13), []int{0, 30, 45}[l.Intn(3)]
		sign, secs := "+", oh*3600+om*60
		if l.Bool() {
			sign, secs = "-", -secs
		}
		t := time.Date(y, time.Month(mo), d, h, mi, s, 0, time.FixedZone("", secs))
		return fmt.Sprintf("%s%s%02d:%02d", base, sign, oh, om), canonT(t)
	case 2:
		cs := l.Intn(100)
		t := time.Date(y, time.Month(mo), d, h, mi, s, cs*10000000, time.UTC)
		return fmt.Sprintf("%s.%02d", base, cs), canonT(t)
	default:
		t := time.Date(y, time.Month(mo), d, h, mi, s, 0, time.UTC)
		return base, canonT(t)
	}
}

func f32bits(v float32) string { return fmt.Sprintf("%x", math.Float32bits(v)) }

// DrawXRecord draws a property record. long > 0 plants one value longer than the parser's window.
func DrawXRecord(l *core.Lane, long bool) *XRecord {
	r := &XRecord{}
	add := func(p *XProp) { r.Props = append(r.Props, p) }
	str := func(ns, name, path string, p int) {
		if l.Intn(100) >= 100-p {
			v := xmlText(l, valueLen(l))
			add(&XProp{NS: ns, Name: name, Val: v, Path: path, Want: qs(v)})
		}
	}
	uintp := func(ns, name, path string, max int, p int) {
		if l.Intn(100) >= 100-p {
			v := l.Intn(max + 1)
			if x := XDateExtra; x != nil && x.Chance(1, 5) {
				// the largest value the field's type holds, where the format defines it: MeteringMode
				// 255 is "other"; dimensions and ids are 32-bit
				switch name {
				case "MeteringMode":
					v = 255
				case "PixelXDimension", "PixelYDimension", "LensID":
					v = 1<<32 - 1
				case "Rating":
					v = -1 // "rejected", the one negative value the XMP specification defines
				}
			}
			add(&XProp{NS: ns, Name: name, Val: strconv.Itoa(v), Path: path, Want: strconv.Itoa(v)})
		}
	}
	ratp := func(ns, name, path string, p int) {
		if l.Intn(100) >= 100-p {
			n, d := uint32(1+l.Intn(1<<20)), uint32(1+l.Intn(1<<16))
			add(&XProp{NS: ns, Name: name, Val: fmt.Sprintf("%d/%d", n, d), Path: path, IsF: true, Bits: 32, WantF: float64(float32(n) / float32(d))})
		}
	}
	datep := func(ns, name, path string, p int) {
		if l.Intn(100) >= 100-p {
			t, w := drawXDate(l)
			add(&XProp{NS: ns, Name: name, Val: t, Path: path, Want: w, NoJudge: w == "*"})
		}
	}
	biasp := func(ns, name, path string, p int) {
		if l.Intn(100) >= 100-p {
			n, d := 1+l.Intn(120), 1+l.Intn(120)
			sign, v := "", int16(n)<<8+int16(d)
			switch l.Intn(3) {
			case 1:
				sign, v = "-", int16(-n)<<8+int16(d)
			case 2:
				sign = "+"
			}
			add(&XProp{NS: ns, Name: name, Val: fmt.Sprintf("%s%d/%d", sign, n, d), Path: path, Want: strconv.Itoa(int(v))})
		}
	}
	uuidp := func(ns, name, path string, p int) {
		if l.Intn(100) >= 100-p {
			f := l.Sub()
			raw := f.Bytes(16)
			hex := fmt.Sprintf("%x", raw)
			if l.Bool() {
				hex = strings.ToUpper(hex)
			}
			txt := hex
			switch l.Intn(4) {
			case 0:
				txt = "xmp.did:" + hex
			case 1:
				txt = "uuid:" + hex
			case 2:
				txt = "xmp.iid:" + hex[:8] + "-" + hex[8:12] + "-" + hex[12:16] + "-" + hex[16:20] + "-" + hex[20:]
			}
			add(&XProp{NS: ns, Name: name, Val: txt, Path: path, Want: fmt.Sprintf("%x", raw)})
		}
	}
	arr := func(ns, name, path, kind string, p int) {
		if l.Intn(100) >= 100-p {
			n := 1 + l.Intn(4)
			x := &XProp{NS: ns, Name: name, Array: kind, Path: path}
			for i := 0; i < n; i++ {
				x.Items = append(x.Items, xmlText(l, 1+l.Intn(60)))
			}
			if e := XDateExtra; e != nil && e.Chance(1, 6) {
				x.Items = nil // an empty array, written with an end tag or as an empty-element tag
				x.Solo = e.Bool()
			}
			add(x)
		}
	}
	xmpNS, mmNS := "xmp", "xmpMM"
	if l.Bool() {
		xmpNS, mmNS = "xap", "xapMM"
	}
	str("tiff", "Make", "XMP.Tiff.Make", 45)
	str("tiff", "Model", "XMP.Tiff.Model", 45)
	uintp("tiff", "ImageWidth", "XMP.Tiff.ImageWidth", 65535, 30)
	uintp("tiff", "ImageLength", "XMP.Tiff.ImageLength", 65535, 30)
	if l.Intn(100) >= 70 {
		v := 1 + l.Intn(8)
		add(&XProp{NS: "tiff", Name: "Orientation", Val: strconv.Itoa(v), Path: "XMP.Tiff.Orientation", Want: strconv.Itoa(v)})
	}
	uintp("exif", "PixelXDimension", "XMP.Exif.PixelXDimension", 1<<31-1, 25)
	uintp("exif", "PixelYDimension", "XMP.Exif.PixelYDimension", 1<<31-1, 25)
	datep("exif", "DateTimeOriginal", "XMP.Exif.DateTimeOriginal", 35)
	ratp("exif", "ExposureTime", "XMP.Exif.ExposureTime", 30)
	uintp("exif", "ExposureProgram", "XMP.Exif.ExposureProgram", 8, 20)
	uintp("exif", "ExposureMode", "XMP.Exif.ExposureMode", 2, 20)
	uintp("exif", "MeteringMode", "XMP.Exif.MeteringMode", 6, 20)
	ratp("exif", "FNumber", "XMP.Exif.Aperture", 30)
	ratp("exif", "FocalLength", "XMP.Exif.FocalLength", 30)
	ratp("exif", "SubjectDistance", "XMP.Exif.SubjectDistance", 15)
	biasp("exif", "ExposureBiasValue", "XMP.Exif.ExposureBias", 25)
	if l.Intn(100) >= 75 {
		v := float64(l.Intn(180000000)-90000000) / 1e6
		t := strconv.FormatFloat(v, 'f', 6, 64)
		w, _ := strconv.ParseFloat(t, 64)
		add(&XProp{NS: "exif", Name: "GPSLatitude", Val: t, Path: "XMP.Exif.GPSLatitude", IsF: true, Bits: 64, WantF: w})
	}
	if l.Intn(100) >= 75 {
		v := float64(l.Intn(360000000)-180000000) / 1e6
		t := strconv.FormatFloat(v, 'f', 6, 64)
		w, _ := strconv.ParseFloat(t, 64)
		add(&XProp{NS: "exif", Name: "GPSLongitude", Val: t, Path: "XMP.Exif.GPSLongitude", IsF: true, Bits: 64, WantF: w})
	}
	if l.Intn(100) >= 85 {
		t := strconv.FormatFloat(float64(l.Intn(9000000))/1000, 'f', 3, 64)
		w, _ := strconv.ParseFloat(t, 64)
		add(&XProp{NS: "exif", Name: "GPSAltitude", Val: t, Path: "XMP.Exif.GPSAltitude", IsF: true, Bits: 32, WantF: float64(float32(w))})
	}
	str("aux", "SerialNumber", "XMP.Aux.SerialNumber", 30)
	str("aux", "LensInfo", "XMP.Aux.LensInfo", 20)
	str("aux", "Lens", "XMP.Aux.Lens", 30)
	str("aux", "LensSerialNumber", "XMP.Aux.LensSerialNumber", 20)
	uintp("aux", "LensID", "XMP.Aux.LensID", 1<<31-1, 20)
	uintp("aux", "ImageNumber", "XMP.Aux.ImageNumber", 65535, 20)
	biasp("aux", "FlashCompensation", "XMP.Aux.FlashCompensation", 15)
	datep(xmpNS, "CreateDate", "XMP.Basic.CreateDate", 30)
	datep(xmpNS, "MetadataDate", "XMP.Basic.MetadataDate", 25)
	datep(xmpNS, "ModifyDate", "XMP.Basic.ModifyDate", 25)
	str(xmpNS, "CreatorTool", "XMP.Basic.CreatorTool", 30)
	str(xmpNS, "Label", "XMP.Basic.Label", 20)
	uintp(xmpNS, "Rating", "XMP.Basic.Rating", 5, 25)
	uuidp(mmNS, "DocumentID", "XMP.MM.DocumentID", 30)
	uuidp(mmNS, "OriginalDocumentID", "XMP.MM.OriginalDocumentID", 25)
	uuidp(mmNS, "InstanceID", "XMP.MM.InstanceID", 25)
	str(mmNS, "PreservedFileName", "XMP.MM.PreservedFileName", 15)
	str("crs", "RawFileName", "XMP.CRS.RawFileName", 25)
	arr("dc", "creator", "XMP.DC.Creator", "Seq", 30)
	arr("dc", "subject", "XMP.DC.Subject", "Bag", 35)
	arr("dc", "rights", "XMP.DC.Rights", "Alt", 20)
	arr("dc", "description", "XMP.DC.Description", "Alt", 20)
	if long && len(r.Props) > 0 {
		// one string property gets a value longer than the parser's 1538-byte window
		var cands []*XProp
		for _, p := range r.Props {
			if p.Array == "" && strings.HasPrefix(p.Want, "\"") {
				cands = append(cands, p)
			}
		}
		if len(cands) > 0 {
			p := cands[l.Intn(len(cands))]
			v := xmlText(l, 1560+l.Intn(1500))
			p.Val, p.Want, p.Long = v, qs(v), true
		}
	}
	return r
}

// XStyle holds the serialiser's choices.
type XStyle struct {
	AllAttr, AllElem bool // force the form of every simple property (form-equivalence twins)
	AllSpace         bool // white space between tokens uses tab and CR too, not only space and LF
	LongWS           bool // runs of white space longer than the tokenizer's first look-ahead step
	Unknown          bool // unknown properties and namespaces interleaved
	Junk             int  // leading bytes before the root element: 0 none, 1 xpacket header, 2 BOM + xpacket, 3 text
	Quotes           int  // 0 mixed, 1 double, 2 single
	Shuffle          bool // property order
	TagSpace         bool // white space inside tags before '>' (start tags without attributes, end tags)
	EqSpace          bool // white space around the '=' of attributes (XML: Eq ::= S? '=' S?); set by the caller from a side lane
	// AttrPad > 0: runs of white space up to that length behind attribute values (and a quarter of
	// it on either side of '='); set by the caller from a side lane. Below the 1538 bytes the
	// reader buffers.
	AttrPad int
	// RootEnd > 0: the packet ends with the root end tag written as '</x:xmpmeta S>' (variant
	// RootEnd-1) and no trailer; set by the caller from a side lane
	RootEnd int
	// Unprefixed: names without a namespace prefix - bit 0: 'about' instead of 'rdf:about' on
	// rdf:Description (bit 3: with a value that contains a colon), bit 1: unknown attributes,
	// bit 2: unknown elements are called 'note'; set by the caller from a side lane
	Unprefixed int
	Seed       uint64
}

// DrawXStyle draws the serialiser's choices (every feature separately, so that a failing case
// minimises to the features it needs).
func DrawXStyle(l *core.Lane) XStyle {
	return XStyle{AllSpace: l.Chance(1, 3), LongWS: l.Chance(1, 3), Unknown: l.Bool(), Junk: l.Intn(4), Quotes: l.Intn(3), Shuffle: l.Bool(), Seed: l.U64(), TagSpace: l.Chance(1, 3)}
}

var unknownProps = []string{"tiff:NativeDigest", "exif:LightSource", "photoshop:ColorMode", "zz:Whatever", "exif:SceneType", "tiff:PhotometricInterpretation", "photoshop:ICCProfile", "lr:hierarchicalSubject", "zz:AnotherOne", "exif:WhiteBalance"}

// Serialise writes the record as an XMP packet. form (per simple property): attribute of
// rdf:Description or child element; arrays are always elements.
func (r *XRecord) Serialise(l *core.Lane, st XStyle) []byte {
	f := core.NewSplitMix(st.Seed | 1)
	wsSet := " \n  "
	if st.AllSpace {
		wsSet = " \n\t\r \n" // every XML white space character (XML 1.0 production S)
	}
	var sb strings.Builder
	// room returns how much white space may still follow what has been written: runs stay within
	// the reader's window (longer ones are outside the property's quantifier), also when two
	// pieces of padding end up next to each other
	room := func() int {
		t := sb.String()
		k := 0
		for k < len(t) && k < 1600 {
			if c := t[len(t)-1-k]; c != ' ' && c != '\n' && c != '\t' && c != '\r' {
				break
			}
			k++
		}
		if k > 1530 {
			return 0
		}
		return 1530 - k
	}
	long := true // (false while the '>' of a tag is written: runs inside tags stay short)
	ws := func(min int) string {
		n := min
		switch f.Intn(6) {
		case 0:
			n += f.Intn(4)
		case 1:
			n += f.Intn(30)
		case 2:
			if st.LongWS {
				n += 120 + f.Intn(30) // runs longer than the first look-ahead step
			}
		case 3:
			if st.AttrPad > 0 && long {
				n += st.AttrPad - f.Intn(st.AttrPad/4+1) // runs up to the size of the window
			}
		}
		if st.AttrPad > 0 {
			if r := room(); n > r {
				n = r
				if n < min {
					n = min
				}
			}
		}
		var sb strings.Builder
		for i := 0; i < n; i++ {
			sb.WriteByte(wsSet[f.Intn(len(wsSet))])
		}
		return sb.String()
	}
	pad := func(n int) string {
		if r := room(); n > r {
			n = r
		}
		var b strings.Builder
		for i := 0; i < n; i++ {
			b.WriteByte(wsSet[f.Intn(len(wsSet))])
		}
		return b.String()
	}
	quote := func() string {
		if st.Quotes == 2 || (st.Quotes == 0 && f.Intn(2) == 0) {
			return "'"
		}
		return "\""
	}
	gt := func() string { // the '>' that ends a tag, possibly after white space
		if st.TagSpace && f.Intn(2) == 0 {
			long = false
			w := ws(1)
			long = true
			return w + ">"
		}
		return ">"
	}
	// leading bytes before the root element
	switch st.Junk {
	case 1:
		sb.WriteString("<?xpacket begin=\"\" id=\"W5M0MpCehiHzreSzNTczkc9d\"?>")
		sb.WriteString(ws(0))
	case 2:
		sb.WriteString("\xef\xbb\xbf<?xpacket begin='\xef\xbb\xbf' id='W5M0MpCehiHzreSzNTczkc9d'?>\n")
	case 3:
		n := f.Intn(700)
		switch f.Intn(4) {
		case 1:
			n = 1530 + f.Intn(16) // around the parser's 1538-byte window
		case 2:
			n = 1538 + f.Intn(5000)
		}
		for i := 0; i < n; i++ {
			sb.WriteByte(xmlSafe[f.Intn(len(xmlSafe))])
		}
		sb.WriteString(ws(1))
	}
	q := quote()
	sb.WriteString("<x:xmpmeta xmlns:x=" + q + "adobe:ns:meta/" + q)
	if f.Intn(2) == 0 {
		q = quote()
		long = false // (the root start tag is read as one token: it stays short)
		w := ws(1)
		long = true
		sb.WriteString(w + "x:xmptk=" + q + "SimXMP Core 1.0" + q)
	}
	sb.WriteString(">" + ws(0))
	q = quote()
	sb.WriteString("<rdf:RDF xmlns:rdf=" + q + "http://www.w3.org/1999/02/22-rdf-syntax-ns#" + q + ">" + ws(0))
	// order
	props := append([]*XProp(nil), r.Props...)
	for i := len(props) - 1; i > 0 && st.Shuffle; i-- {
		k := f.Intn(i + 1)
		props[i], props[k] = props[k], props[i]
	}
	var attrs, elems []*XProp
	for _, p := range props {
		asAttr := f.Intn(2) == 0
		if st.AllAttr {
			asAttr = true
		}
		if st.AllElem {
			asAttr = false
		}
		if p.Array != "" || !asAttr {
			elems = append(elems, p)
		} else {
			attrs = append(attrs, p)
		}
	}
	sb.WriteString("<rdf:Description")
	q = quote()
	if st.Unprefixed&1 != 0 {
		sb.WriteString(ws(1) + "about=" + q + []string{"", "uuid:1234"}[st.Unprefixed>>3&1] + q) // the legacy (XMP toolkit 2.x) form
	} else {
		sb.WriteString(ws(1) + "rdf:about=" + q + q)
	}
	used := map[string]bool{}
	for _, p := range props {
		used[p.NS] = true
	}
	used["photoshop"], used["zz"], used["lr"], used["exif"], used["tiff"] = true, true, true, true, true
	nsOrder := []string{"tiff", "exif", "aux", "xmp", "xap", "xmpMM", "xapMM", "crs", "dc", "photoshop", "zz", "lr"}
	for _, ns := range nsOrder {
		if used[ns] {
			q = quote()
			sb.WriteString(ws(1) + "xmlns:" + ns + "=" + q + xmlnsURI[ns] + q)
		}
	}
	unknownAttr := func() {
		if st.Unknown && f.Intn(3) == 0 {
			q := quote()
			n := 1 + f.Intn(200)
			var v strings.Builder
			for i := 0; i < n; i++ {
				v.WriteByte(xmlSafe[f.Intn(len(xmlSafe))])
			}
			name := unknownProps[f.Intn(len(unknownProps))]
			if st.Unprefixed&2 != 0 {
				name = "note"
			}
			sb.WriteString(ws(1) + name + "=" + q + v.String() + q)
		}
	}
	for _, p := range attrs {
		unknownAttr()
		q = quote()
		eq := "="
		if st.EqSpace && f.Intn(2) == 0 {
			eq = []string{"", " ", "\t", "  "}[f.Intn(4)] + "=" + []string{"", " ", "\n", "  "}[f.Intn(4)]
		}
		if st.AttrPad > 0 && f.Intn(2) == 0 {
			eq = pad(f.Intn(st.AttrPad/4+1)) + "=" + pad(f.Intn(st.AttrPad/4+1))
		}
		sb.WriteString(ws(1) + p.NS + ":" + p.Name + eq + q + p.Val + q)
		if st.AttrPad > 0 && f.Intn(2) == 0 {
			sb.WriteString(pad(st.AttrPad - f.Intn(st.AttrPad/4+1))) // white space behind the value
		}
	}
	unknownAttr()
	if len(elems) == 0 && f.Intn(2) == 0 {
		sb.WriteString(ws(0) + "/>")
	} else {
		sb.WriteString(ws(0) + ">" + ws(0))
		for _, p := range elems {
			if st.Unknown && f.Intn(3) == 0 {
				u := unknownProps[f.Intn(len(unknownProps))]
				if st.Unprefixed&4 != 0 {
					u = "note"
				}
				sb.WriteString("<" + u + ">" + "unrelated" + "</" + u + ">" + ws(0))
			}
			tag := p.NS + ":" + p.Name
			if p.Array == "" {
				sb.WriteString("<" + tag + gt() + p.Val + "</" + tag + gt() + ws(0))
				continue
			}
			if p.Solo && len(p.Items) == 0 {
				sb.WriteString("<" + tag + gt() + ws(0) + "<rdf:" + p.Array + "/>" + ws(0) + "</" + tag + gt() + ws(0))
				continue
			}
			sb.WriteString("<" + tag + gt() + ws(0) + "<rdf:" + p.Array + gt() + ws(0))
			for i, it := range p.Items {
				if p.Array == "Alt" {
					q = quote()
					lang := "x-default"
					if i > 0 {
						lang = []string{"en-US", "de-DE", "fr"}[i%3]
					}
					sb.WriteString("<rdf:li xml:lang=" + q + lang + q + gt() + it + "</rdf:li" + gt() + ws(0))
				} else {
					sb.WriteString("<rdf:li" + gt() + it + "</rdf:li" + gt() + ws(0))
				}
			}
			sb.WriteString("</rdf:" + p.Array + gt() + ws(0) + "</" + tag + gt() + ws(0))
		}
		sb.WriteString("</rdf:Description" + gt())
	}
	sb.WriteString(ws(0) + "</rdf:RDF" + gt() + ws(0) + "</x:xmpmeta>")
	if st.RootEnd > 0 {
		// the root end tag written with white space before '>' and nothing, or a few bytes of white
		// space, behind it: the packet is complete where the stream ends
		t := sb.String()
		sb.Reset()
		sb.WriteString(t[:len(t)-1] + []string{" ", "\n", "  ", "\t \n"}[(st.RootEnd-1)%4] + ">" + []string{"", "", "\n", " \n"}[(st.RootEnd-1)/4%4])
		return []byte(sb.String())
	}
	if f.Intn(2) == 0 {
		sb.WriteString(ws(0) + "<?xpacket end='w'?>")
	}
	return []byte(sb.String())
}
