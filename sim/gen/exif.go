// Package gen holds the workload generators. They are written from the format specifications
// (TIFF 6 / Exif 2.32, JPEG marker syntax, PNG 1.2 + eXIf, ISO 14496-12, Canon CR3 layout, XMP
// part 1) and never import constants, tables or helpers from the library under test.
// Every generator draws only from the lane it is given; with an all-zero lane it emits its
// smallest valid instance, so minimisation converges on small files.
package gen

import (
	"encoding/binary"
	"fmt"
	"sort"

	"verifsim/core"
)

// TIFF field types (TIFF 6.0 §2).
const (
	TByte      = 1
	TASCII     = 2
	TShort     = 3
	TLong      = 4
	TRational  = 5
	TSByte     = 6
	TUndefined = 7
	TSShort    = 8
	TSLong     = 9
	TSRational = 10
	TFloat     = 11
	TDouble    = 12
)

var typeSize = map[int]int{1: 1, 2: 1, 3: 2, 4: 4, 5: 8, 6: 1, 7: 1, 8: 2, 9: 4, 10: 8, 11: 4, 12: 8}

// Tag ids from the Exif 2.32 / TIFF 6 / DNG specifications.
const (
	tagImageWidth       = 0x0100
	tagImageLength      = 0x0101
	tagImageDescription = 0x010e
	tagMake             = 0x010f
	tagModel            = 0x0110
	tagStripOffsets     = 0x0111
	tagOrientation      = 0x0112
	tagStripByteCounts  = 0x0117
	tagSoftware         = 0x0131
	tagDateTime         = 0x0132
	tagArtist           = 0x013b
	tagSubIFDs          = 0x014a
	tagCopyright        = 0x8298
	tagExifIFD          = 0x8769
	tagGPSIFD           = 0x8825
	tagCameraSerial     = 0xc62f
	tagDNGVersion       = 0xc612

	tagExposureTime    = 0x829a
	tagFNumber         = 0x829d
	tagExposureProgram = 0x8822
	tagISO             = 0x8827
	tagDateOriginal    = 0x9003
	tagDateDigitized   = 0x9004
	tagOffsetTime      = 0x9010
	tagOffsetTimeOrig  = 0x9011
	tagOffsetTimeDig   = 0x9012
	tagApertureValue   = 0x9202
	tagExposureBias    = 0x9204
	tagMeteringMode    = 0x9207
	tagFlash           = 0x9209
	tagFocalLength     = 0x920a
	tagMakerNote       = 0x927c
	tagSubSec          = 0x9290
	tagSubSecOrig      = 0x9291
	tagSubSecDig       = 0x9292
	tagPixelX          = 0xa002
	tagPixelY          = 0xa003
	tagExposureMode    = 0xa402
	tagFocal35         = 0xa405
	tagOwnerName       = 0xa430
	tagBodySerial      = 0xa431
	tagLensSpec        = 0xa432
	tagLensMake        = 0xa433
	tagLensModel       = 0xa434
	tagLensSerial      = 0xa435

	tagGPSLatRef  = 0x0001
	tagGPSLat     = 0x0002
	tagGPSLonRef  = 0x0003
	tagGPSLon     = 0x0004
	tagGPSAltRef  = 0x0005
	tagGPSAlt     = 0x0006
	tagGPSTime    = 0x0007
	tagGPSDate    = 0x001d
	tagGPSVersion = 0x0000
)

type Rational struct{ N, D uint32 }

type DateTime struct{ Y, Mo, D, H, Mi, S int }

func (d DateTime) String() string {
	return fmt.Sprintf("%04d:%02d:%02d %02d:%02d:%02d", d.Y, d.Mo, d.D, d.H, d.Mi, d.S)
}

// Record is the logical metadata record m: optional fields with spec-level values.
type Record struct {
	// IFD0
	Make, Model, Artist, Copyright, Software, Description, CameraSerial *string
	Width, Height                                                       *uint32
	DimLong                                                             bool
	Orientation                                                         *uint16
	ModifyDate                                                          *DateTime
	StripOffsets, StripByteCounts                                       *uint32
	DNG                                                                 bool
	// Exif IFD
	LensMake, LensModel, LensSerial, BodySerial, OwnerName *string
	PixelX, PixelY                                         *uint32
	DateOrig, DateDig                                      *DateTime
	SubSec, SubSecOrig, SubSecDig                          *string
	Offset, OffsetOrig, OffsetDig                          *string
	ExposureTime, FNumber, ApertureValue, FocalLength      *Rational
	FocalLengthInt                                         *uint32 // FocalLength written as SHORT
	ISO                                                    *uint32
	ISOLong                                                bool
	Bias                                                   *[2]int32
	Program, Mode, Metering, Flash, Focal35                *uint16
	LensSpec                                               *[4]Rational
	MakerNote                                              []byte
	// GPS IFD
	LatRef, LonRef *byte
	Lat, Lon       *[3]Rational
	AltRef         *byte
	Alt            *Rational
	GPSTime        *[3]Rational
	// KnownModel != 0: Make and Model name a camera of the library's model table, and this is the
	// number the result must report for it whatever the layout
	KnownModel uint32
	GPSDate    *string // "YYYY:MM:DD"
}

func (r *Record) HasExif() bool {
	return r.LensMake != nil || r.LensModel != nil || r.LensSerial != nil || r.BodySerial != nil || r.OwnerName != nil ||
		r.PixelX != nil || r.PixelY != nil || r.DateOrig != nil || r.DateDig != nil || r.SubSec != nil || r.SubSecOrig != nil ||
		r.SubSecDig != nil || r.Offset != nil || r.OffsetOrig != nil || r.OffsetDig != nil || r.ExposureTime != nil ||
		r.FNumber != nil || r.ApertureValue != nil || r.FocalLength != nil || r.FocalLengthInt != nil || r.ISO != nil || r.Bias != nil ||
		r.Program != nil || r.Mode != nil || r.Metering != nil || r.Flash != nil || r.Focal35 != nil || r.LensSpec != nil || r.MakerNote != nil
}

func (r *Record) HasGPS() bool {
	return r.LatRef != nil || r.LonRef != nil || r.Lat != nil || r.Lon != nil || r.AltRef != nil || r.Alt != nil || r.GPSTime != nil || r.GPSDate != nil
}

// FieldCount counts the present fields (non-triviality rule).
func (r *Record) FieldCount() int {
	n := 0
	for _, p := range []*string{r.Make, r.Model, r.Artist, r.Copyright, r.Software, r.Description, r.CameraSerial, r.LensMake, r.LensModel, r.LensSerial, r.BodySerial, r.OwnerName, r.SubSec, r.SubSecOrig, r.SubSecDig, r.Offset, r.OffsetOrig, r.OffsetDig, r.GPSDate} {
		if p != nil {
			n++
		}
	}
	for _, p := range []*uint32{r.Width, r.Height, r.PixelX, r.PixelY, r.ISO, r.FocalLengthInt, r.StripOffsets, r.StripByteCounts} {
		if p != nil {
			n++
		}
	}
	for _, p := range []*uint16{r.Orientation, r.Program, r.Mode, r.Metering, r.Flash, r.Focal35} {
		if p != nil {
			n++
		}
	}
	for _, p := range []*Rational{r.ExposureTime, r.FNumber, r.ApertureValue, r.FocalLength, r.Alt} {
		if p != nil {
			n++
		}
	}
	for _, p := range []*DateTime{r.ModifyDate, r.DateOrig, r.DateDig} {
		if p != nil {
			n++
		}
	}
	if r.Bias != nil {
		n++
	}
	if r.LensSpec != nil {
		n++
	}
	if r.Lat != nil {
		n++
	}
	if r.Lon != nil {
		n++
	}
	if r.GPSTime != nil {
		n++
	}
	return n
}

// ---------------------------------------------------------------------------------------------
// record generation

const printable = "ABCDEFGHIJKLMNOPQRSTUVWXYZabcdefghijklmnopqrstuvwxyz0123456789 -_.,:/()#+"

// Str draws a printable ASCII string without trailing blank (the library trims those by
// design). Length classes: tiny (1..3, embedded), short, medium, long tail to maxLong.
func Str(l *core.Lane, maxLong int) string {
	var n int
	switch l.Intn(8) {
	case 0:
		n = 1 + l.Intn(3)
	case 1, 2, 3:
		n = 4 + l.Intn(28)
	case 4, 5:
		n = 1 + l.Intn(120)
	case 6:
		n = 1 + l.Intn(1000)
	default:
		n = 1000 + l.Intn(maxLong-1000+1)
	}
	f := l.Sub()
	b := make([]byte, n)
	for i := range b {
		b[i] = printable[f.Intn(len(printable))]
	}
	// first and last characters are never blanks
	const solid = "ABCDEFGHIJKLMNOPQRSTUVWXYZabcdefghijklmnopqrstuvwxyz0123456789"
	b[0] = solid[f.Intn(len(solid))]
	b[n-1] = solid[f.Intn(len(solid))]
	return string(b)
}

func optStr(l *core.Lane, p int, maxLong int) *string {
	if !l.Chance(p, 100) {
		return nil
	}
	s := Str(l, maxLong)
	return &s
}

// canonical spellings of makes (written exactly as the maker's name; used as plain strings)
var plainMakes = []string{"Canon", "Nikon", "Apple", "Sony", "Leica", "Pentax", "Olympus", "Samsung", "Kodak", "Sigma"}

func u16(v int) *uint16    { x := uint16(v); return &x }
func u32(v uint32) *uint32 { return &v }

func drawDate(l *core.Lane) *DateTime {
	d := &DateTime{Y: 1970 + l.Intn(130), Mo: 1 + l.Intn(12), D: 1 + l.Intn(28), H: l.Intn(24), Mi: l.Intn(60), S: l.Intn(60)}
	if l.Chance(1, 10) {
		d.Y = 1 + l.Intn(9999)
	}
	return d
}

func drawOffset(l *core.Lane) *string {
	sign := "+"
	h := l.Intn(15)
	m := []int{0, 15, 30, 45}[l.Intn(4)]
	if l.Bool() && (h != 0 || m != 0) {
		sign = "-"
	}
	s := fmt.Sprintf("%s%02d:%02d", sign, h, m)
	return &s
}

func drawSubSec(l *core.Lane) *string {
	n := 1 + l.Intn(9)
	b := make([]byte, n)
	for i := range b {
		b[i] = byte('0' + l.Intn(10))
	}
	s := string(b)
	return &s
}

func drawRat(l *core.Lane) *Rational {
	var r Rational
	switch l.Intn(4) {
	case 0:
		r = Rational{uint32(1 + l.Intn(30)), uint32(1 + l.Intn(8000))}
	case 1:
		r = Rational{uint32(l.Intn(1 << 24)), uint32(1 + l.Intn(1<<24-1))}
	case 2:
		r = Rational{uint32(l.Intn(5000)), uint32(1 + l.Intn(100))}
	default:
		r = Rational{uint32(l.Intn(100000)), 1 + uint32(l.Intn(1000))}
	}
	return &r
}

func drawCoord(l *core.Lane, maxDeg int) *[3]Rational {
	var c [3]Rational
	switch l.Intn(3) {
	case 0: // d/1 m/1 s/100
		c = [3]Rational{{uint32(l.Intn(maxDeg)), 1}, {uint32(l.Intn(60)), 1}, {uint32(l.Intn(6000)), 100}}
	case 1: // d/1 m/10000 0/1
		c = [3]Rational{{uint32(l.Intn(maxDeg)), 1}, {uint32(l.Intn(600000)), 10000}, {0, 1}}
	default:
		c = [3]Rational{{uint32(l.Intn(maxDeg * 1000)), 1000}, {uint32(l.Intn(60 * 7)), 7}, {uint32(l.Intn(60 * 1000000)), 1000000}}
	}
	return &c
}

// DrawRecord draws a logical record: a random subset of the supported fields with random
// in-range values. density (0..100) scales how many fields are present.
func DrawRecord(l *core.Lane, maxStr int) *Record {
	r := &Record{}
	density := []int{15, 40, 70, 95}[l.Intn(4)]
	p := func() bool { return l.Chance(density, 100) }
	if p() {
		if l.Chance(1, 4) {
			s := plainMakes[l.Intn(len(plainMakes))]
			r.Make = &s
		} else {
			s := Str(l, maxStr)
			r.Make = &s
		}
	}
	if p() {
		r.Model = optStr(l, 100, maxStr)
	}
	if p() {
		r.Artist = optStr(l, 100, maxStr)
	}
	if p() {
		r.Copyright = optStr(l, 100, maxStr)
	}
	if p() {
		r.Software = optStr(l, 100, maxStr)
	}
	if p() {
		r.Description = optStr(l, 100, maxStr)
	}
	if p() {
		r.Width = u32(uint32(1 + l.Intn(65535)))
		r.Height = u32(uint32(1 + l.Intn(65535)))
		r.DimLong = l.Bool()
	}
	if p() {
		r.Orientation = u16(1 + l.Intn(8))
	}
	if p() {
		r.ModifyDate = drawDate(l)
		if l.Chance(density, 100) {
			r.SubSec = drawSubSec(l)
		}
		if l.Chance(density, 100) {
			r.Offset = drawOffset(l)
		}
	}
	if l.Chance(density/3, 100) {
		r.StripOffsets = u32(uint32(l.Intn(1 << 30)))
		r.StripByteCounts = u32(uint32(l.Intn(1 << 30)))
	}
	// serial: at most one of IFD0 CameraSerialNumber / Exif BodySerialNumber (generator
	// restriction: the result has a single CameraSerial field)
	if p() {
		if l.Bool() {
			r.CameraSerial = optStr(l, 100, maxStr)
		} else {
			r.BodySerial = optStr(l, 100, maxStr)
		}
	}
	if p() {
		r.LensMake = optStr(l, 100, maxStr)
	}
	if p() {
		r.LensModel = optStr(l, 100, maxStr)
	}
	if p() {
		r.LensSerial = optStr(l, 100, maxStr)
	}
	if r.Artist != nil && l.Chance(density/2, 100) {
		// the result has no separate owner-name field the library fills; generated only next to
		// Artist, where it must not perturb anything
		r.OwnerName = optStr(l, 100, maxStr)
	}
	if r.Width == nil && p() {
		r.PixelX = u32(uint32(1 + l.Intn(65535)))
		r.PixelY = u32(uint32(1 + l.Intn(65535)))
	}
	if p() {
		r.DateOrig = drawDate(l)
		if l.Chance(density, 100) {
			r.SubSecOrig = drawSubSec(l)
		}
		if l.Chance(density, 100) {
			r.OffsetOrig = drawOffset(l)
		}
	}
	if p() {
		r.DateDig = drawDate(l)
		if l.Chance(density, 100) {
			r.SubSecDig = drawSubSec(l)
		}
		if l.Chance(density, 100) {
			r.OffsetDig = drawOffset(l)
		}
	}
	if p() {
		r.ExposureTime = drawRat(l)
	}
	if p() {
		if l.Chance(1, 4) {
			// APEX aperture only
			r.ApertureValue = &Rational{uint32(l.Intn(1400)), 100}
		} else {
			r.FNumber = drawRat(l)
			if r.FNumber.N == 0 {
				r.FNumber.N = 1 // 0 is not an f-number (the result treats it as "absent")
			}
			if l.Chance(1, 3) {
				r.ApertureValue = &Rational{uint32(l.Intn(1400)), 100}
			}
		}
	}
	if p() {
		r.ISO = u32(uint32(1 + l.Intn(65535)))
		r.ISOLong = l.Chance(1, 5)
		if r.ISOLong && l.Bool() {
			r.ISO = u32(uint32(l.Intn(1 << 31)))
		}
	}
	if p() {
		r.Bias = &[2]int32{int32(l.Intn(255) - 127), int32(1 + l.Intn(127))}
	}
	if p() {
		r.Program = u16(l.Intn(10))
	}
	if p() {
		r.Mode = u16(l.Intn(3))
	}
	if p() {
		r.Metering = u16(l.Intn(7))
	}
	if p() {
		r.Flash = u16([]int{0, 1, 5, 7, 8, 9, 13, 15, 16, 24, 25, 29, 31, 32, 65, 69, 71, 73, 77, 79, 89, 93, 95}[l.Intn(23)])
	}
	if p() {
		if l.Chance(1, 5) {
			r.FocalLengthInt = u32(uint32(1 + l.Intn(2000)))
		} else {
			r.FocalLength = drawRat(l)
		}
	}
	if p() {
		r.Focal35 = u16(1 + l.Intn(3000))
	}
	if p() {
		r.LensSpec = &[4]Rational{*drawRat(l), *drawRat(l), *drawRat(l), *drawRat(l)}
	}
	if l.Chance(density/2, 100) {
		// maker note blob: only for makes whose notes the specification leaves opaque
		plain := false
		if r.Make != nil {
			for _, m := range plainMakes {
				if *r.Make == m {
					plain = true
				}
			}
		}
		if !plain {
			r.MakerNote = ScreenTIFF(l.Sub().Bytes(8 + l.Intn(300)))
		}
	}
	// GPS
	if p() {
		r.Lat = drawCoord(l, 90)
		b := byte('N')
		if l.Bool() {
			b = 'S'
		}
		r.LatRef = &b
		r.Lon = drawCoord(l, 180)
		b2 := byte('E')
		if l.Bool() {
			b2 = 'W'
		}
		r.LonRef = &b2
	}
	if p() {
		r.Alt = &Rational{uint32(l.Intn(9000000)), uint32(1 + l.Intn(1000))}
		b := byte(l.Intn(2))
		r.AltRef = &b
	}
	if p() {
		// denominators divide their numerators: the result has 1 s resolution
		d1, d2, d3 := uint32(1+l.Intn(3)), uint32(1+l.Intn(3)), uint32(1+l.Intn(100))
		r.GPSTime = &[3]Rational{{uint32(l.Intn(24)) * d1, d1}, {uint32(l.Intn(60)) * d2, d2}, {uint32(l.Intn(60)) * d3, d3}}
		d := drawDate(l)
		s := fmt.Sprintf("%04d:%02d:%02d", d.Y, d.Mo, d.D)
		r.GPSDate = &s
	}
	return r
}

// ScreenTIFF rewrites filler content so that it contains no TIFF signature (the containers'
// header search defines "first signature wins").
func ScreenTIFF(b []byte) []byte {
	for i := 0; i+4 <= len(b); i++ {
		if (b[i] == 'I' && b[i+1] == 'I' && b[i+2] == '*' && b[i+3] == 0) || (b[i] == 'M' && b[i+1] == 'M' && b[i+2] == 0 && b[i+3] == '*') {
			b[i+1] = 'x'
		}
	}
	return b
}

// ---------------------------------------------------------------------------------------------
// abstract directories

// Entry is one IFD entry with its value in abstract form.
type Entry struct {
	ID    uint16
	Type  int
	Count uint32
	// typed values (exactly one is used, by Type)
	Bytes  []byte     // BYTE ASCII SBYTE UNDEFINED
	Shorts []uint16   // SHORT SSHORT
	Longs  []uint32   // LONG SLONG FLOAT
	Rats   []Rational // RATIONAL SRATIONAL
	U64s   []uint64   // DOUBLE
	Child  *Dir       // pointer entry: value is the offset of Child
	Field  string     // logical field name ("" for foreign)
}

func (e *Entry) Size() int { return typeSize[e.Type] * int(e.Count) }

func (e *Entry) encode(bo binary.ByteOrder) []byte {
	out := make([]byte, 0, e.Size())
	switch e.Type {
	case TByte, TASCII, TSByte, TUndefined:
		out = append(out, e.Bytes...)
	case TShort, TSShort:
		for _, v := range e.Shorts {
			var b [2]byte
			bo.PutUint16(b[:], v)
			out = append(out, b[:]...)
		}
	case TLong, TSLong, TFloat:
		for _, v := range e.Longs {
			var b [4]byte
			bo.PutUint32(b[:], v)
			out = append(out, b[:]...)
		}
	case TRational, TSRational:
		for _, v := range e.Rats {
			var b [8]byte
			bo.PutUint32(b[:4], v.N)
			bo.PutUint32(b[4:], v.D)
			out = append(out, b[:]...)
		}
	case TDouble:
		for _, v := range e.U64s {
			var b [8]byte
			bo.PutUint64(b[:], v)
			out = append(out, b[:]...)
		}
	}
	return out
}

// Dir is one image file directory.
type Dir struct {
	Name    string
	Entries []*Entry
	Next    *Dir // next-IFD chain (IFD0 -> IFD1)
}

func ascii(id uint16, s string, field string) *Entry {
	b := append([]byte(s), 0)
	return &Entry{ID: id, Type: TASCII, Count: uint32(len(b)), Bytes: b, Field: field}
}
func short(id uint16, v uint16, field string) *Entry {
	return &Entry{ID: id, Type: TShort, Count: 1, Shorts: []uint16{v}, Field: field}
}
func long(id uint16, v uint32, field string) *Entry {
	return &Entry{ID: id, Type: TLong, Count: 1, Longs: []uint32{v}, Field: field}
}
func rat(id uint16, typ int, field string, rs ...Rational) *Entry {
	return &Entry{ID: id, Type: typ, Count: uint32(len(rs)), Rats: rs, Field: field}
}

// Dirs builds the directories of a record (no foreign tags yet).
func (r *Record) Dirs() (ifd0, exif, gps *Dir) {
	ifd0 = &Dir{Name: "IFD0"}
	add := func(d *Dir, e *Entry) { d.Entries = append(d.Entries, e) }
	sadd := func(d *Dir, id uint16, s *string, f string) {
		if s != nil {
			add(d, ascii(id, *s, f))
		}
	}
	dim := func(d *Dir, id uint16, v *uint32, f string, asLong bool) {
		if v == nil {
			return
		}
		if asLong {
			add(d, long(id, *v, f))
		} else {
			add(d, short(id, uint16(*v), f))
		}
	}
	dim(ifd0, tagImageWidth, r.Width, "Width", r.DimLong)
	dim(ifd0, tagImageLength, r.Height, "Height", r.DimLong)
	sadd(ifd0, tagImageDescription, r.Description, "Description")
	sadd(ifd0, tagMake, r.Make, "Make")
	sadd(ifd0, tagModel, r.Model, "Model")
	if r.StripOffsets != nil {
		add(ifd0, long(tagStripOffsets, *r.StripOffsets, "StripOffsets"))
	}
	if r.Orientation != nil {
		add(ifd0, short(tagOrientation, *r.Orientation, "Orientation"))
	}
	if r.StripByteCounts != nil {
		add(ifd0, long(tagStripByteCounts, *r.StripByteCounts, "StripByteCounts"))
	}
	sadd(ifd0, tagSoftware, r.Software, "Software")
	if r.ModifyDate != nil {
		add(ifd0, ascii(tagDateTime, r.ModifyDate.String(), "ModifyDate"))
	}
	sadd(ifd0, tagArtist, r.Artist, "Artist")
	sadd(ifd0, tagCopyright, r.Copyright, "Copyright")
	if r.DNG {
		add(ifd0, &Entry{ID: tagDNGVersion, Type: TByte, Count: 4, Bytes: []byte{1, 4, 0, 0}, Field: "DNGVersion"})
	}
	sadd(ifd0, tagCameraSerial, r.CameraSerial, "CameraSerial")
	if len(ifd0.Entries) == 0 {
		// TIFF 6.0: a directory has at least one entry
		add(ifd0, short(0x0128, 2, ""))
	}

	if r.HasExif() {
		exif = &Dir{Name: "Exif"}
		if r.ExposureTime != nil {
			add(exif, rat(tagExposureTime, TRational, "ExposureTime", *r.ExposureTime))
		}
		if r.FNumber != nil {
			add(exif, rat(tagFNumber, TRational, "FNumber", *r.FNumber))
		}
		if r.Program != nil {
			add(exif, short(tagExposureProgram, *r.Program, "Program"))
		}
		if r.ISO != nil {
			if r.ISOLong {
				add(exif, long(tagISO, *r.ISO, "ISO"))
			} else {
				add(exif, short(tagISO, uint16(*r.ISO), "ISO"))
			}
		}
		if r.DateOrig != nil {
			add(exif, ascii(tagDateOriginal, r.DateOrig.String(), "DateOrig"))
		}
		if r.DateDig != nil {
			add(exif, ascii(tagDateDigitized, r.DateDig.String(), "DateDig"))
		}
		sadd(exif, tagOffsetTime, r.Offset, "Offset")
		sadd(exif, tagOffsetTimeOrig, r.OffsetOrig, "OffsetOrig")
		sadd(exif, tagOffsetTimeDig, r.OffsetDig, "OffsetDig")
		if r.ApertureValue != nil {
			add(exif, rat(tagApertureValue, TRational, "ApertureValue", *r.ApertureValue))
		}
		if r.Bias != nil {
			add(exif, rat(tagExposureBias, TSRational, "Bias", Rational{uint32(r.Bias[0]), uint32(r.Bias[1])}))
		}
		if r.Metering != nil {
			add(exif, short(tagMeteringMode, *r.Metering, "Metering"))
		}
		if r.Flash != nil {
			add(exif, short(tagFlash, *r.Flash, "Flash"))
		}
		if r.FocalLength != nil {
			add(exif, rat(tagFocalLength, TRational, "FocalLength", *r.FocalLength))
		}
		if r.FocalLengthInt != nil {
			add(exif, short(tagFocalLength, uint16(*r.FocalLengthInt), "FocalLength"))
		}
		if r.MakerNote != nil {
			add(exif, &Entry{ID: tagMakerNote, Type: TUndefined, Count: uint32(len(r.MakerNote)), Bytes: r.MakerNote, Field: "MakerNote"})
		}
		sadd(exif, tagSubSec, r.SubSec, "SubSec")
		sadd(exif, tagSubSecOrig, r.SubSecOrig, "SubSecOrig")
		sadd(exif, tagSubSecDig, r.SubSecDig, "SubSecDig")
		dim(exif, tagPixelX, r.PixelX, "PixelX", false)
		dim(exif, tagPixelY, r.PixelY, "PixelY", false)
		if r.Mode != nil {
			add(exif, short(tagExposureMode, *r.Mode, "Mode"))
		}
		if r.Focal35 != nil {
			add(exif, short(tagFocal35, *r.Focal35, "Focal35"))
		}
		sadd(exif, tagOwnerName, r.OwnerName, "OwnerName")
		sadd(exif, tagBodySerial, r.BodySerial, "BodySerial")
		if r.LensSpec != nil {
			add(exif, rat(tagLensSpec, TRational, "LensSpec", r.LensSpec[0], r.LensSpec[1], r.LensSpec[2], r.LensSpec[3]))
		}
		sadd(exif, tagLensMake, r.LensMake, "LensMake")
		sadd(exif, tagLensModel, r.LensModel, "LensModel")
		sadd(exif, tagLensSerial, r.LensSerial, "LensSerial")
	}
	if r.HasGPS() {
		gps = &Dir{Name: "GPS"}
		if r.LatRef != nil {
			add(gps, &Entry{ID: tagGPSLatRef, Type: TASCII, Count: 2, Bytes: []byte{*r.LatRef, 0}, Field: "LatRef"})
		}
		if r.Lat != nil {
			add(gps, rat(tagGPSLat, TRational, "Lat", r.Lat[0], r.Lat[1], r.Lat[2]))
		}
		if r.LonRef != nil {
			add(gps, &Entry{ID: tagGPSLonRef, Type: TASCII, Count: 2, Bytes: []byte{*r.LonRef, 0}, Field: "LonRef"})
		}
		if r.Lon != nil {
			add(gps, rat(tagGPSLon, TRational, "Lon", r.Lon[0], r.Lon[1], r.Lon[2]))
		}
		if r.AltRef != nil {
			add(gps, &Entry{ID: tagGPSAltRef, Type: TByte, Count: 1, Bytes: []byte{*r.AltRef}, Field: "AltRef"})
		}
		if r.Alt != nil {
			add(gps, rat(tagGPSAlt, TRational, "Alt", *r.Alt))
		}
		if r.GPSTime != nil {
			add(gps, rat(tagGPSTime, TRational, "GPSTime", r.GPSTime[0], r.GPSTime[1], r.GPSTime[2]))
		}
		if r.GPSDate != nil {
			add(gps, ascii(tagGPSDate, *r.GPSDate, "GPSDate"))
		}
	}
	return
}

// ---------------------------------------------------------------------------------------------
// foreign tags

var foreignIFD0 = []uint16{0x00fe, 0x0102, 0x0103, 0x0106, 0x0115, 0x0116, 0x011a, 0x011b, 0x011c, 0x0128, 0x013e, 0x013f, 0x0211, 0x0213, 0x0214, 0x02bc, 0x4746, 0x83bb, 0x8773, 0x9c9b, 0x9c9c, 0xc4a5, 0xc614, 0xc621, 0xc65a, 0xea1c}
var foreignExif = []uint16{0x8824, 0x8830, 0x8832, 0x9000, 0x9101, 0x9102, 0x9201, 0x9203, 0x9205, 0x9206, 0x9208, 0x9214, 0x9286, 0xa000, 0xa001, 0xa20e, 0xa20f, 0xa210, 0xa215, 0xa217, 0xa300, 0xa301, 0xa401, 0xa403, 0xa404, 0xa406, 0xa407, 0xa408, 0xa409, 0xa40a, 0xa40c, 0xa420, 0xa500, 0xea1c}
var foreignGPS = []uint16{0x0000, 0x0008, 0x0009, 0x000a, 0x000b, 0x000c, 0x000d, 0x000e, 0x000f, 0x0010, 0x0011, 0x0012, 0x0013, 0x0014, 0x0017, 0x0018, 0x001b, 0x001c, 0x001e, 0x001f}

// DrawForeign draws one unknown/unrelated tag of any valid type with an embedded or
// out-of-line value.
func DrawForeign(l *core.Lane, pool []uint16, used map[uint16]bool) *Entry {
	var id uint16
	for tries := 0; tries < 8; tries++ {
		id = pool[l.Intn(len(pool))]
		if !used[id] {
			break
		}
	}
	if used[id] {
		return nil
	}
	used[id] = true
	return drawForeignID(l, id)
}

// drawForeignID draws an unknown tag with the given id.
func drawForeignID(l *core.Lane, id uint16) *Entry {
	typ := 1 + l.Intn(12)
	var count int
	switch l.Intn(4) {
	case 0:
		count = 1
	case 1:
		count = 1 + l.Intn(4)
	case 2:
		count = 1 + l.Intn(40)
	default:
		count = 1 + l.Intn(600)
	}
	if typeSize[typ] == 8 && count > 100 {
		count = 100
	}
	e := &Entry{ID: id, Type: typ, Count: uint32(count)}
	f := l.Sub()
	switch typ {
	case TByte, TSByte, TUndefined:
		e.Bytes = ScreenTIFF(f.Bytes(count))
	case TASCII:
		b := make([]byte, count)
		for i := 0; i < count-1; i++ {
			b[i] = printable[f.Intn(len(printable))]
		}
		e.Bytes = b
	case TShort, TSShort:
		for i := 0; i < count; i++ {
			e.Shorts = append(e.Shorts, uint16(f.Intn(65536)))
		}
	case TLong, TSLong, TFloat:
		for i := 0; i < count; i++ {
			e.Longs = append(e.Longs, uint32(f.Intn(1<<31))<<1|uint32(f.Intn(2)))
		}
	case TRational, TSRational:
		for i := 0; i < count; i++ {
			e.Rats = append(e.Rats, Rational{uint32(f.Intn(1 << 31)), uint32(f.Intn(1 << 31))})
		}
	case TDouble:
		for i := 0; i < count; i++ {
			e.U64s = append(e.U64s, uint64(f.Intn(1<<31))<<32|uint64(f.Intn(1<<31)))
		}
	}
	return e
}

// ---------------------------------------------------------------------------------------------
// layout

// Layout is an abstract forward layout: the order of blocks after the 8-byte header, with
// padding, entry order inside directories, and the next-IFD chain. It is drawn once and can be
// serialised in either byte order with identical offsets.
type Layout struct {
	// Garbage != 0 fills the unused bytes of the 4-byte value slot of embedded values shorter
	// than four bytes with non-zero bytes (TIFF 6.0 leaves them undefined; values are
	// left-justified in the slot in either byte order).
	Garbage   uint64
	Root      *Dir
	RootName  string
	Blocks    []*block
	LeadBytes []byte // written into the padding after the TIFF header (as much as fits)
	LeadPad   int    // padding between the TIFF header and the first block (first-IFD offset = 8+LeadPad when the first block is the root)
}

type block struct {
	dir   *Dir   // directory block
	entry *Entry // value block (owner entry)
	pad   int    // padding before the block
	off   int    // assigned offset
}

// FieldSpan is one entry of the layout map: a named field of the file image.
type FieldSpan struct {
	Name     string
	Off, Len int
}

// Encoded is a serialised TIFF block plus its layout map.
type Encoded struct {
	Bytes    []byte
	Map      []FieldSpan // every count, entry, type, count, offset field and value blob
	FirstIFD int
	// MaxPending is the maximum number of pending out-of-line tags (pointer tags included) a
	// forward reader holds at any moment, per the generator's own forward-pass model.
	MaxPending int
	MaxEntries int
}

// LayoutOpts tunes the layout draw.
type LayoutOpts struct {
	NoShuffle bool
	NoPad     bool
	Foreign   int  // max foreign tags per directory
	IFD1      bool // allow a next-IFD chain
	Canonical bool // everything at its simplest (used for the "stripped" metamorphic twin)
	// Bulk > 0 adds that many further unknown tags (ids from a private range) to one directory:
	// files beyond the documented limits (>128 entries, >84 pending out-of-line tags), which the
	// "returns"/differential properties must survive and C03/C06/C07 skip.
	Bulk int
	// BulkSpread distributes the Bulk tags over all directories instead of one (files that stay
	// within the documented limits but keep the pending-tag buffer well filled).
	BulkSpread bool
}

// DrawLayout draws a forward layout for the given root directory and its children.
func DrawLayout(l *core.Lane, root *Dir, opts LayoutOpts) *Layout {
	ly := &Layout{Root: root, RootName: root.Name}
	if !opts.NoPad && !opts.Canonical && l.Chance(1, 4) {
		ly.LeadPad = 2 * l.Intn(20)
	}
	// entry order inside each directory: ascending ids (0) or shuffled
	var dirs []*Dir
	var collect func(d *Dir)
	collect = func(d *Dir) {
		dirs = append(dirs, d)
		for _, e := range d.Entries {
			if e.Child != nil {
				collect(e.Child)
			}
		}
		if d.Next != nil {
			collect(d.Next)
		}
	}
	collect(root)
	for _, d := range dirs {
		sort.SliceStable(d.Entries, func(i, j int) bool { return d.Entries[i].ID < d.Entries[j].ID })
		if !opts.NoShuffle && !opts.Canonical && l.Chance(1, 3) {
			for i := len(d.Entries) - 1; i > 0; i-- {
				j := l.Intn(i + 1)
				d.Entries[i], d.Entries[j] = d.Entries[j], d.Entries[i]
			}
		}
	}
	// topological order of blocks: a value/child block becomes available once its directory
	// has been placed
	var avail []*block
	place := func(b *block) {
		if !opts.NoPad && !opts.Canonical && l.Chance(1, 5) {
			b.pad = 2 * l.Intn(12)
			if l.Chance(1, 6) {
				b.pad = 2 * l.Intn(700)
			}
		}
		ly.Blocks = append(ly.Blocks, b)
		if b.dir != nil {
			for _, e := range b.dir.Entries {
				if e.Child != nil {
					avail = append(avail, &block{dir: e.Child, entry: e})
				} else if e.Size() > 4 {
					avail = append(avail, &block{entry: e})
				}
			}
			if b.dir.Next != nil {
				avail = append(avail, &block{dir: b.dir.Next})
			}
		}
	}
	place(&block{dir: root})
	mode := 0
	if !opts.Canonical {
		mode = l.Intn(3) // 0: in availability order, 1: random, 2: directories first
	}
	for len(avail) > 0 {
		i := 0
		switch mode {
		case 1:
			i = l.Intn(len(avail))
		case 2:
			for j, b := range avail {
				if b.dir != nil {
					i = j
					break
				}
			}
		}
		b := avail[i]
		avail = append(avail[:i], avail[i+1:]...)
		place(b)
	}
	return ly
}

// Encode serialises the layout in the given byte order. base is added to every stored offset
// (0 for plain TIFF). The layout (and therefore every offset) is identical for both orders.
func (ly *Layout) Encode(big bool) *Encoded {
	var bo binary.ByteOrder = binary.LittleEndian
	if big {
		bo = binary.BigEndian
	}
	// pass 1: assign offsets
	off := 8 + ly.LeadPad
	dirOff := map[*Dir]int{}
	valOff := map[*Entry]int{}
	for _, b := range ly.Blocks {
		off += b.pad
		if off%2 == 1 {
			off++
		}
		b.off = off
		if b.dir != nil {
			dirOff[b.dir] = off
			off += 2 + 12*len(b.dir.Entries) + 4
		} else {
			valOff[b.entry] = off
			off += b.entry.Size()
		}
	}
	total := off
	out := make([]byte, total)
	enc := &Encoded{}
	if big {
		copy(out, "MM\x00*")
	} else {
		copy(out, "II*\x00")
	}
	if n := len(ly.LeadBytes); n > 0 && n <= ly.LeadPad {
		copy(out[8:], ly.LeadBytes)
	}
	first := dirOff[ly.Root]
	bo.PutUint32(out[4:], uint32(first))
	enc.FirstIFD = first
	enc.Map = append(enc.Map, FieldSpan{"tiff.byteorder", 0, 2}, FieldSpan{"tiff.magic", 2, 2}, FieldSpan{"tiff.firstifd", 4, 4})
	for _, b := range ly.Blocks {
		if b.dir != nil {
			d := b.dir
			p := b.off
			bo.PutUint16(out[p:], uint16(len(d.Entries)))
			enc.Map = append(enc.Map, FieldSpan{d.Name + ".count", p, 2})
			if len(d.Entries) > enc.MaxEntries {
				enc.MaxEntries = len(d.Entries)
			}
			p += 2
			for _, e := range d.Entries {
				bo.PutUint16(out[p:], e.ID)
				bo.PutUint16(out[p+2:], uint16(e.Type))
				bo.PutUint32(out[p+4:], e.Count)
				name := fmt.Sprintf("%s.%04x", d.Name, e.ID)
				enc.Map = append(enc.Map, FieldSpan{name + ".id", p, 2}, FieldSpan{name + ".type", p + 2, 2}, FieldSpan{name + ".count", p + 4, 4}, FieldSpan{name + ".valoff", p + 8, 4})
				switch {
				case e.Child != nil:
					bo.PutUint32(out[p+8:], uint32(dirOff[e.Child]))
				case e.Size() > 4:
					bo.PutUint32(out[p+8:], uint32(valOff[e]))
				default:
					v := e.encode(bo)
					copy(out[p+8:p+12], v)
					if ly.Garbage != 0 {
						for k := len(v); k < 4; k++ {
							out[p+8+k] = byte((ly.Garbage>>(8*uint(k)))^uint64(e.ID)) | 1
						}
					}
				}
				p += 12
			}
			if d.Next != nil {
				bo.PutUint32(out[p:], uint32(dirOff[d.Next]))
			}
			enc.Map = append(enc.Map, FieldSpan{d.Name + ".next", p, 4})
		} else {
			v := b.entry.encode(bo)
			copy(out[b.off:], v)
			enc.Map = append(enc.Map, FieldSpan{fmt.Sprintf("value.%04x", b.entry.ID), b.off, len(v)})
		}
	}
	enc.Bytes = out
	enc.MaxPending = ly.maxPending()
	return enc
}

// maxPending is the generator's own forward-pass model of a forward-only reader: the set of
// pending out-of-line tags (pointers included) grows when a directory is read and shrinks as
// values are consumed in offset order.
func (ly *Layout) maxPending() int {
	type pend struct {
		off int
		dir *Dir
	}
	var pending []pend
	max := 0
	addDir := func(d *Dir, dirOff map[*Dir]int, valOff map[*Entry]int) {
		for _, e := range d.Entries {
			if e.Child != nil {
				pending = append(pending, pend{dirOff[e.Child], e.Child})
			} else if e.Size() > 4 {
				pending = append(pending, pend{valOff[e], nil})
			}
		}
		if d.Next != nil {
			pending = append(pending, pend{dirOff[d.Next], nil})
		}
	}
	dirOff := map[*Dir]int{}
	valOff := map[*Entry]int{}
	for _, b := range ly.Blocks {
		if b.dir != nil {
			dirOff[b.dir] = b.off
		} else {
			valOff[b.entry] = b.off
		}
	}
	addDir(ly.Root, dirOff, valOff)
	for len(pending) > 0 {
		if len(pending) > max {
			max = len(pending)
		}
		sort.SliceStable(pending, func(i, j int) bool { return pending[i].off < pending[j].off })
		p := pending[0]
		if p.dir != nil {
			// the pointer tag stays in the buffer while its directory's tags are added
			addDir(p.dir, dirOff, valOff)
			if len(pending) > max {
				max = len(pending)
			}
		}
		pending = pending[1:]
	}
	return max
}

// BuildTIFF draws foreign tags and a layout for a record and returns the layout (serialise it
// with Encode in either byte order).
func BuildTIFF(l *core.Lane, r *Record, opts LayoutOpts) *Layout {
	ifd0, exif, gps := r.Dirs()
	addForeign := func(d *Dir, pool []uint16) {
		if opts.Foreign <= 0 || opts.Canonical {
			return
		}
		n := 0
		switch l.Intn(4) {
		case 1:
			n = 1 + l.Intn(3)
		case 2:
			n = l.Intn(opts.Foreign + 1)
		}
		used := map[uint16]bool{}
		for i := 0; i < n; i++ {
			if e := DrawForeign(l, pool, used); e != nil {
				d.Entries = append(d.Entries, e)
			}
		}
	}
	addForeign(ifd0, foreignIFD0)
	if exif != nil {
		addForeign(exif, foreignExif)
		ifd0.Entries = append(ifd0.Entries, &Entry{ID: tagExifIFD, Type: TLong, Count: 1, Child: exif, Field: "ExifIFD"})
	}
	if gps != nil {
		addForeign(gps, foreignGPS)
		ifd0.Entries = append(ifd0.Entries, &Entry{ID: tagGPSIFD, Type: TLong, Count: 1, Child: gps, Field: "GPSIFD"})
	}
	if opts.Bulk > 0 && !opts.Canonical {
		dirs := []*Dir{ifd0}
		if exif != nil {
			dirs = append(dirs, exif)
		}
		if gps != nil {
			dirs = append(dirs, gps)
		}
		d := dirs[l.Intn(len(dirs))]
		for i := 0; i < opts.Bulk; i++ {
			if opts.BulkSpread {
				d = dirs[l.Intn(len(dirs))]
			}
			d.Entries = append(d.Entries, drawForeignID(l, uint16(0xd000+i)))
		}
	}
	if opts.IFD1 && !opts.Canonical && l.Chance(1, 4) {
		ifd1 := &Dir{Name: "IFD1"}
		ifd1.Entries = append(ifd1.Entries, short(0x0103, 6, ""), long(0x0201, uint32(l.Intn(1<<20)), ""), long(0x0202, uint32(l.Intn(1<<16)), ""))
		if l.Bool() {
			ifd1.Entries = append(ifd1.Entries, rat(0x011a, TRational, "", Rational{72, 1}), rat(0x011b, TRational, "", Rational{72, 1}))
		}
		ifd0.Next = ifd1
	}
	return DrawLayout(l, ifd0, opts)
}

// BuildSplit draws the CR3 form of a record: the same logical record split by directory as the
// format requires (IFD0 -> CMT1, Exif IFD -> CMT2, GPS IFD -> CMT4), each a TIFF block of its
// own whose root directory is that directory.
func BuildSplit(l *core.Lane, r *Record, opts LayoutOpts) (cmt1, cmt2, cmt4 *Layout) {
	ifd0, exif, gps := r.Dirs()
	addForeign := func(d *Dir, pool []uint16) {
		if opts.Foreign <= 0 || opts.Canonical {
			return
		}
		n := 0
		switch l.Intn(4) {
		case 1:
			n = 1 + l.Intn(3)
		case 2:
			n = l.Intn(opts.Foreign + 1)
		}
		used := map[uint16]bool{}
		for i := 0; i < n; i++ {
			if e := DrawForeign(l, pool, used); e != nil {
				d.Entries = append(d.Entries, e)
			}
		}
	}
	addForeign(ifd0, foreignIFD0)
	cmt1 = DrawLayout(l, ifd0, opts)
	if exif != nil {
		addForeign(exif, foreignExif)
		cmt2 = DrawLayout(l, exif, opts)
	}
	if gps != nil {
		addForeign(gps, foreignGPS)
		cmt4 = DrawLayout(l, gps, opts)
	}
	return
}

var typeNames = map[int]string{1: "BYTE", 2: "ASCII", 3: "SHORT", 4: "LONG", 5: "RATIONAL", 6: "SBYTE", 7: "UNDEFINED", 8: "SSHORT", 9: "SLONG", 10: "SRATIONAL", 11: "FLOAT", 12: "DOUBLE"}

// SlotProbes lists (type x count) of every value living in the 4-byte offset slot.
func (ly *Layout) SlotProbes() []string {
	var out []string
	for _, b := range ly.Blocks {
		if b.dir == nil {
			continue
		}
		for _, e := range b.dir.Entries {
			if e.Child == nil && e.Size() <= 4 {
				out = append(out, fmt.Sprintf("%sx%d", typeNames[e.Type], e.Count))
			}
		}
	}
	return out
}

// Alt is a set of alternative-but-equivalent encodings of a record's embedded values, applied
// to a drawn layout without moving any offset: SHORT-valued fields written as LONG (TIFF readers
// are expected to accept either), ISOSpeedRatings with a second value (count "Any" in Exif),
// undefined slot padding. The relational properties (C06, C07) and the "returns"/differential
// ones use it; C03 does not, because what a reader must report for them is not pinned down.
type Alt struct {
	AsLong  uint32 // bit per field, see altFields
	ISO2    uint16 // != 0: ISO becomes SHORT x 2 {iso, ISO2}
	Garbage uint64
	// degenerate-but-parseable values (drawn by DrawAltDegenerate from a lane of their own):
	ShortText uint16 // bit per field of shortTextFields: the text is cut to 0..3 characters, so the value moves into the 4-byte slot
	ShortSeed uint64
	ISOn      int  // >= 3: ISOSpeedRatings is written as SHORT x ISOn (count "Any" in Exif): the value no longer fits the slot
	LongText  int  // > 0: the first out-of-line text field holds that many characters (beyond what the 4 KiB readers can look ahead to)
	LeadCR2   bool // the padding after the TIFF header starts with Canon's CR2 magic ("CR", 2, 0), as in a CR2 file
}

var shortTextFields = []string{"ModifyDate", "DateOrig", "DateDig", "Offset", "OffsetOrig", "OffsetDig", "GPSDate", "SubSec", "SubSecOrig", "SubSecDig"}

// DrawAltDegenerate adds degenerate values to a: date, offset and sub-second texts of at most
// three characters, which are stored in the 4-byte slot like any short ASCII value. A reader has
// nothing sensible to report for them; what byte-order transparency (C07: "every field type
// including values embedded in the 4-byte offset slot") requires is that it reports the same for
// II and MM. (A RATIONAL with count 0 was tried as well and dropped: it has no value at all, the
// library reads whatever follows, and no property says what that should be.)
func DrawAltDegenerate(l *core.Lane, a *Alt) {
	switch l.Intn(7) {
	case 1:
		a.ShortText = uint16(1 << uint(l.Intn(len(shortTextFields))))
		a.ShortSeed = l.U64()
	case 2:
		a.ShortText = uint16(l.Intn(1 << len(shortTextFields)))
		a.ShortSeed = l.U64()
	case 3:
		a.LeadCR2 = true
	case 4:
		a.ISOn = 3 + l.Intn(3)
	case 5:
		a.LongText = []int{5000, 9000, 16384, 17000}[l.Intn(4)] + l.Intn(8)
	}
}

var altFields = []string{"Orientation", "Program", "Metering", "Flash", "Mode", "Focal35", "PixelX", "PixelY", "ISO", "Width", "Height"}

// DrawAlt draws an Alt; the zero lane gives the zero Alt (nothing changed).
func DrawAlt(l *core.Lane) Alt {
	var a Alt
	switch l.Intn(4) {
	case 1:
		a.AsLong = uint32(l.Intn(1 << len(altFields)))
	case 2:
		a.ISO2 = uint16(1 + l.Intn(65535))
	case 3:
		a.AsLong = uint32(l.Intn(1 << len(altFields)))
		a.ISO2 = uint16(l.Intn(65536))
	}
	if l.Chance(1, 3) {
		a.Garbage = l.U64() | 1
	}
	return a
}

// ApplyAlt rewrites embedded entries of the layout in place.
func (ly *Layout) ApplyAlt(a Alt) {
	if ly == nil {
		return
	}
	ly.Garbage = a.Garbage
	// the long text replaces one IFD0 text field, the same one however the record is split over
	// blocks (CR3) - the first of Copyright, Software that is stored out of line (not Artist: the
	// library fills an empty Artist from OwnerName, and whether a value it cannot read counts as
	// empty before or after that depends on the order of the blocks - a question about unreadable
	// values, not about containers)
	longField := ""
	if a.LongText > 0 {
	pick:
		for _, want := range []string{"Copyright", "Software"} {
			for _, b := range ly.Blocks {
				if b.dir == nil {
					continue
				}
				for _, e := range b.dir.Entries {
					if e.Field == want && e.Type == TASCII && e.Size() > 4 {
						longField = want
						break pick
					}
				}
			}
		}
	}
	if a.LeadCR2 {
		if ly.LeadPad < 8 {
			ly.LeadPad = 8
		}
		ly.LeadBytes = []byte("CR\x02\x00")
	}
	for _, b := range ly.Blocks {
		if b.dir == nil {
			continue
		}
		for _, e := range b.dir.Entries {
			if e.Child != nil || e.Field == "" {
				continue
			}
			if e.Type == TASCII && a.LongText > 0 && e.Size() > 4 && e.Field == longField {
				txt := make([]byte, a.LongText)
				for k := range txt {
					txt[k] = "The quick brown fox jumps over the lazy dog. "[k%45]
				}
				e.Bytes = append(txt, 0)
				e.Count = uint32(len(e.Bytes))
				continue
			}
			if e.Type == TASCII && a.ShortText != 0 {
				for i, f := range shortTextFields {
					if f == e.Field && a.ShortText&(1<<uint(i)) != 0 {
						r := core.NewSplitMix(a.ShortSeed ^ uint64(i)*0x9e3779b97f4a7c15)
						n := r.Intn(4)
						txt := make([]byte, 0, 4)
						for k := 0; k < n; k++ {
							txt = append(txt, "0123456789:+- "[r.Intn(14)])
						}
						e.Bytes = append(txt, 0)
						e.Count = uint32(len(e.Bytes))
					}
				}
				continue
			}
			if e.Field == "ISO" && a.ISOn >= 3 && e.Type == TShort && e.Count == 1 {
				// the first value is the one a reader reports; the array lives behind everything else
				for k := 1; k < a.ISOn; k++ {
					e.Shorts = append(e.Shorts, uint16(k*100))
				}
				e.Count = uint32(a.ISOn)
				ly.Blocks = append(ly.Blocks, &block{entry: e})
				continue
			}
			if e.Field == "ISO" && a.ISO2 != 0 && e.Type == TShort && e.Count == 1 {
				e.Count = 2
				e.Shorts = append(e.Shorts, a.ISO2)
				continue
			}
			for i, f := range altFields {
				if f == e.Field && a.AsLong&(1<<uint(i)) != 0 && e.Type == TShort && e.Count == 1 {
					e.Type = TLong
					e.Longs = []uint32{uint32(e.Shorts[0])}
					e.Shorts = nil
				}
			}
		}
	}
}

// NikonMakerNote builds a Nikon type-3 maker note: "Nikon\0", version, and a TIFF block of its
// own (with its own byte-order mark, independent of the file's) holding one small directory.
// As an UNDEFINED blob its bytes are the same in the II and MM encodings of a record.
func NikonMakerNote(innerBig bool, f *core.SplitMix) []byte {
	var bo binary.ByteOrder = binary.LittleEndian
	out := []byte("Nikon\x00\x02\x10\x00\x00")
	if innerBig {
		bo = binary.BigEndian
		out = append(out, "MM\x00*"...)
	} else {
		out = append(out, "II*\x00"...)
	}
	var b4 [4]byte
	bo.PutUint32(b4[:], 8)
	out = append(out, b4[:]...)
	// directory: 2 entries (embedded values), next = 0
	var b2 [2]byte
	bo.PutUint16(b2[:], 2)
	out = append(out, b2[:]...)
	for i := 0; i < 2; i++ {
		var e [12]byte
		bo.PutUint16(e[0:], uint16(1+i))
		bo.PutUint16(e[2:], TShort)
		bo.PutUint32(e[4:], 1)
		bo.PutUint16(e[8:], uint16(f.Intn(1000)))
		out = append(out, e[:]...)
	}
	out = append(out, 0, 0, 0, 0)
	for i := f.Intn(40); i > 0; i-- {
		out = append(out, byte(f.Next()))
	}
	return out
}
