package gen

import "verifsim/core"

// Signature table for image-type sniffing (C09), written from the formats' published magic
// numbers (JFIF/Exif SOI+marker, PNG 1.2 §3.1, GIF89a, BMP, RIFF/WebP container, TIFF 6.0 §2,
// Canon CR2/CRW/CR3 notes, Panasonic RW2 as in file(1)'s magic, Adobe PSD, XMP sidecar root
// element, Netpbm P3/P6, ISO 14496-12 ftyp + MIAF/HEIF/AVIF brands). Nothing here is taken from
// the library under test.

// Format names of the table.
const (
	FUnknown = "unknown"
	FJPEG    = "jpeg"
	FPNG     = "png"
	FGIF     = "gif"
	FBMP     = "bmp"
	FWebP    = "webp"
	FHEIF    = "heif"
	FTIFF    = "tiff"
	FRW2     = "rw2"
	FCRW     = "crw"
	FCR3     = "cr3"
	FCR2     = "cr2"
	FPSD     = "psd"
	FXMP     = "xmp"
	FAVIF    = "avif"
	FPPM     = "ppm"
)

func has(h []byte, off int, s string) bool {
	if off+len(s) > len(h) {
		return false
	}
	return string(h[off:off+len(s)]) == s
}

func isFtyp(h []byte) bool { return has(h, 4, "ftyp") }

// compat reports whether brand b is among the compatible brands visible in a 24-byte header
// (slots at 16 and 20, after major brand and minor version).
func compat(h []byte, b string) bool { return has(h, 16, b) || has(h, 20, b) }

// Carries reports whether the first 24 bytes h carry the signature of format f.
func Carries(f string, h []byte) bool {
	if len(h) < 24 {
		return false
	}
	tiff := has(h, 0, "II*\x00") || has(h, 0, "MM\x00*")
	switch f {
	case FJPEG:
		// ITU-T T.81: a JPEG stream starts with the SOI marker FF D8 (the byte after it belongs
		// to the next marker, not to a signature); JPEG 2000's signature box is reported under
		// the same type by the library's documented behaviour (its test suite pins "image/jpeg"
		// for .jp2)
		return has(h, 0, "\xff\xd8") || has(h, 0, "\x00\x00\x00\x0cjP  \r\n\x87\n")
	case FPNG:
		return has(h, 0, "\x89PNG\r\n\x1a\n")
	case FGIF:
		return has(h, 0, "GIF87a") || has(h, 0, "GIF89a")
	case FBMP:
		return has(h, 0, "BM")
	case FWebP:
		return has(h, 0, "RIFF") && has(h, 8, "WEBP")
	case FTIFF:
		return tiff
	case FCR2:
		return tiff && has(h, 8, "CR\x02\x00")
	case FCRW:
		return has(h, 0, "II") && has(h, 6, "HEAPCCDR")
	case FRW2:
		return has(h, 0, "IIU\x00") && has(h, 8, "\x88\xe7\x74\xd8")
	case FPSD:
		return has(h, 0, "8BPS")
	case FXMP:
		return has(h, 0, "<x:xmpmeta")
	case FPPM:
		return (has(h, 0, "P3") || has(h, 0, "P6")) && (h[2] == '\n' || h[2] == '\r' || h[2] == '\t' || h[2] == ' ')
	case FCR3:
		return isFtyp(h) && has(h, 8, "crx ")
	case FAVIF:
		return isFtyp(h) && (has(h, 8, "avif") || (has(h, 8, "mif1") && compat(h, "avif")))
	case FHEIF:
		return isFtyp(h) && (has(h, 8, "heic") || has(h, 8, "heix") || (has(h, 8, "mif1") && compat(h, "heic")) || (has(h, 8, "msf1") && compat(h, "hevc")))
	}
	return false
}

var AllFormats = []string{FJPEG, FPNG, FGIF, FBMP, FWebP, FHEIF, FTIFF, FRW2, FCRW, FCR3, FCR2, FPSD, FXMP, FAVIF, FPPM}

// Acceptable returns the set of types the classification of h may report: every format whose
// signature h carries, minus the generic ones that the documented precedence rules out (CR2 and
// RW2 win over TIFF; among ftyp files the brand decides: CR3, then AVIF, then HEIF). An empty
// set means "unknown".
func Acceptable(h []byte) []string {
	var c []string
	for _, f := range AllFormats {
		if Carries(f, h) {
			c = append(c, f)
		}
	}
	drop := func(f string) {
		out := c[:0]
		for _, x := range c {
			if x != f {
				out = append(out, x)
			}
		}
		c = out
	}
	in := func(f string) bool {
		for _, x := range c {
			if x == f {
				return true
			}
		}
		return false
	}
	// "the more specific format wins over the generic one": a header that carries CR2's, RW2's or
	// CRW's longer signature next to the four TIFF bytes is not plain TIFF
	if in(FCR2) || in(FRW2) || in(FCRW) {
		drop(FTIFF)
	}
	// among ftyp files the brand decides; the major brand "crx " excludes the others, while a
	// brand list that names both avif and heic carries both signatures and the property ranks
	// neither above the other
	if in(FCR3) {
		drop(FAVIF)
		drop(FHEIF)
	}
	return c
}

// Canonical returns canonical 24-byte headers of format f (as real files of the format start).
func Canonical(f string) [][]byte {
	pad := func(s string) []byte {
		b := []byte(s)
		for len(b) < 24 {
			b = append(b, byte(0x11*len(b)+7)|0x80) // filler that cannot complete another signature
		}
		return b[:24]
	}
	switch f {
	case FJPEG:
		return [][]byte{pad("\xff\xd8\xff\xe0\x00\x10JFIF\x00\x01\x01\x00\x00\x48\x00\x48\x00\x00"), pad("\xff\xd8\xff\xe1\x12\x34Exif\x00\x00II*\x00\x08\x00\x00\x00"), pad("\x00\x00\x00\x0cjP  \r\n\x87\n\x00\x00\x00\x14ftypjp2 ")}
	case FPNG:
		return [][]byte{pad("\x89PNG\r\n\x1a\n\x00\x00\x00\rIHDR\x00\x00\x01\x00\x00\x00\x01\x00")}
	case FGIF:
		return [][]byte{pad("GIF89a\x10\x00\x10\x00\xf7\x00\x00"), pad("GIF87a\x10\x00\x10\x00\xf7\x00\x00")}
	case FBMP:
		return [][]byte{pad("BM\x36\x00\x0c\x00\x00\x00\x00\x00\x36\x00\x00\x00\x28\x00\x00\x00")}
	case FWebP:
		return [][]byte{pad("RIFF\x24\x10\x00\x00WEBPVP8 \x18\x10\x00\x00")}
	case FTIFF:
		return [][]byte{pad("II*\x00\x08\x00\x00\x00\x0e\x00\xfe\x00\x04\x00\x01\x00"), pad("MM\x00*\x00\x00\x00\x08\x00\x0e\x00\xfe\x00\x04\x00\x00")}
	case FCR2:
		return [][]byte{pad("II*\x00\x10\x00\x00\x00CR\x02\x00\x3e\x5a\x00\x00")}
	case FCRW:
		return [][]byte{pad("II\x1a\x00\x00\x00HEAPCCDR\x02\x00\x01\x00")}
	case FRW2:
		return [][]byte{pad("IIU\x00\x18\x00\x00\x00\x88\xe7\x74\xd8\xf8\x25\x1d\x4d")}
	case FPSD:
		return [][]byte{pad("8BPS\x00\x01\x00\x00\x00\x00\x00\x00\x00\x03")}
	case FXMP:
		return [][]byte{pad("<x:xmpmeta xmlns:x=\"adobe:")}
	case FPPM:
		return [][]byte{pad("P6\n640 480\n255\n"), pad("P3 4 4 255\n")}
	case FCR3:
		return [][]byte{pad("\x00\x00\x00\x18ftypcrx \x00\x00\x00\x01crx isom")}
	case FAVIF:
		return [][]byte{pad("\x00\x00\x00\x1cftypavif\x00\x00\x00\x00avifmif1"), pad("\x00\x00\x00\x1cftypmif1\x00\x00\x00\x00mif1avif")}
	case FHEIF:
		return [][]byte{pad("\x00\x00\x00\x18ftypheic\x00\x00\x00\x00mif1heic"), pad("\x00\x00\x00\x18ftypheix\x00\x00\x00\x00mif1heix"), pad("\x00\x00\x00\x18ftypmif1\x00\x00\x00\x00mif1heic")}
	}
	return nil
}

// SigPart is one contiguous piece of a format's signature: bytes S at offset Off.
type SigPart struct {
	Off int
	S   string
}

// SigFamily groups formats whose signatures are variations of one scheme (a byte-order mark and a
// magic number; a box header and brands), so that pieces of one are the natural near misses of
// another.
var SigFamilies = [][]string{
	{FTIFF, FCR2, FCRW, FRW2},
	{FCR3, FAVIF, FHEIF},
	{FGIF}, {FPPM}, {FJPEG}, {FPNG}, {FBMP}, {FWebP}, {FPSD}, {FXMP},
}

// SigParts lists the signature pieces per format (several alternatives of one piece are listed
// one after the other), from the same published magic numbers as Carries.
var SigParts = map[string][]SigPart{
	FJPEG: {{0, "\xff\xd8"}, {0, "\x00\x00\x00\x0cjP  \r\n\x87\n"}},
	FPNG:  {{0, "\x89PNG\r\n\x1a\n"}},
	FGIF:  {{0, "GIF87a"}, {0, "GIF89a"}},
	FBMP:  {{0, "BM"}},
	FWebP: {{0, "RIFF"}, {8, "WEBP"}},
	FTIFF: {{0, "II*\x00"}, {0, "MM\x00*"}},
	FCR2:  {{0, "II*\x00"}, {0, "MM\x00*"}, {8, "CR\x02\x00"}},
	FCRW:  {{0, "II"}, {6, "HEAPCCDR"}},
	FRW2:  {{0, "IIU\x00"}, {8, "\x88\xe7\x74\xd8"}},
	FPSD:  {{0, "8BPS"}},
	FXMP:  {{0, "<x:xmpmeta"}},
	FPPM:  {{0, "P3"}, {0, "P6"}},
	FCR3:  {{4, "ftyp"}, {8, "crx "}},
	FAVIF: {{4, "ftyp"}, {8, "avif"}, {8, "mif1"}, {16, "avif"}, {20, "avif"}},
	FHEIF: {{4, "ftyp"}, {8, "heic"}, {8, "heix"}, {8, "mif1"}, {8, "msf1"}, {16, "heic"}, {20, "heic"}, {16, "hevc"}, {20, "hevc"}},
}

func reverse(s string) string {
	b := []byte(s)
	for i, j := 0, len(b)-1; i < j; i, j = i+1, j-1 {
		b[i], b[j] = b[j], b[i]
	}
	return string(b)
}

// Recombine draws a near miss: a canonical header in which some two-byte units of its signature
// are replaced by the same unit written the other way round (a magic number in the other byte
// order), by the unit a related format has at that offset, or by the unit of any format. Headers
// of this kind differ from every canonical header in several bytes at once, which single-byte
// perturbations do not reach.
func Recombine(l *core.Lane) (h []byte, desc string) {
	f := AllFormats[l.Intn(len(AllFormats))]
	cs := Canonical(f)
	h = append([]byte(nil), cs[l.Intn(len(cs))]...)
	var family []string
	for _, fam := range SigFamilies {
		for _, x := range fam {
			if x == f {
				family = fam
			}
		}
	}
	// the two-byte units the base's own signature covers
	seen := map[int]bool{}
	var units []int
	for _, p := range SigParts[f] {
		if p.Off+len(p.S) > 24 || string(h[p.Off:p.Off+len(p.S)]) != p.S {
			continue
		}
		for o := p.Off; o+2 <= p.Off+len(p.S); o += 2 {
			if !seen[o] {
				seen[o] = true
				units = append(units, o)
			}
		}
	}
	// alternatives for the unit at offset o drawn from the parts of the given formats
	alts := func(o int, formats []string) []string {
		var out []string
		for _, x := range formats {
			for _, p := range SigParts[x] {
				if o >= p.Off && o+2 <= p.Off+len(p.S) && (o-p.Off)%2 == 0 {
					u := p.S[o-p.Off : o-p.Off+2]
					out = append(out, u, reverse(u))
				}
			}
		}
		return out
	}
	desc = "recombined " + f
	for _, o := range units {
		if !l.Bool() {
			continue
		}
		var a []string
		switch l.Intn(3) {
		case 0:
			a = []string{reverse(string(h[o : o+2]))}
		case 1:
			a = alts(o, family)
		default:
			a = alts(o, AllFormats)
		}
		if len(a) == 0 {
			continue
		}
		copy(h[o:], a[l.Intn(len(a))])
	}
	return h, desc
}
