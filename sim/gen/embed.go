package gen

import (
	"encoding/binary"
	"hash/crc32"

	"verifsim/core"
)

// Container kinds for C06/C07.
const (
	CTIFF = 0
	CJPEG = 1
	CPNG  = 2
	CCR3  = 3
	CHEIF = 4
)

var ContainerNames = []string{"TIFF", "JPEG", "PNG", "CR3", "HEIF"}

// Embedded is a container file with the location of the payload part(s) it carries.
type Embedded struct {
	Kind  int
	AVIF  bool // a HEIF container whose file type box says avif
	Bytes []byte
	Parts []Span // payload parts in order (one TIFF block; for CR3: CMT1, CMT2, CMT4 as present)
	Map   []FieldSpan
}

// Embed wraps payload part(s) in a container with (optionally) random surrounding content.
// For CR3, parts = [CMT1, CMT2 or nil, CMT4 or nil]; otherwise parts = [TIFF block].
func Embed(l *core.Lane, kind int, parts [][]byte, surround bool) *Embedded {
	return EmbedX(l, nil, kind, parts, surround)
}

// EmbedX is Embed with further surroundings drawn from the side lane x (nil or zero: none): a
// JPEG also carries one or two XMP APP1 segments, which DrawJPEG places before or after the Exif
// segment like any other.
func EmbedX(l, x *core.Lane, kind int, parts [][]byte, surround bool, more ...*core.Lane) *Embedded {
	var y *core.Lane // a second side lane, for knobs added later (so that traces of x keep their meaning)
	if len(more) > 0 {
		y = more[0]
	}
	e := &Embedded{Kind: kind}
	var xmps [][]byte
	if x != nil && kind == CJPEG {
		for k := x.Intn(3); k > 0; k-- {
			pkt := "<?xpacket begin='' id='W5M0MpCehiHzreSzNTczkc9d'?><x:xmpmeta xmlns:x='adobe:ns:meta/'><rdf:RDF xmlns:rdf='http://www.w3.org/1999/02/22-rdf-syntax-ns#'><rdf:Description rdf:about='' xmlns:xmp='http://ns.adobe.com/xap/1.0/' xmp:Rating='3'/></rdf:RDF></x:xmpmeta>"
			for i := x.Intn(300); i > 0; i-- {
				pkt += " "
			}
			xmps = append(xmps, []byte(pkt+"<?xpacket end='w'?>"))
		}
	}
	switch kind {
	case CTIFF:
		e.Bytes = TIFFFile(l, parts[0], surround)
		e.Parts = []Span{{"tiff", 0, len(parts[0])}}
	case CJPEG:
		max := 0
		if surround {
			max = 6
		}
		exifs := [][]byte{parts[0]}
		if x != nil && x.Chance(1, 6) {
			exifs = append(exifs, parts[0]) // the same Exif block in a second APP1 segment
		}
		j := DrawJPEG(l, JPEGOpts{Exif: exifs, XMP: xmps, Max: max})
		e.Bytes = j.Bytes
		for _, s := range j.Segs {
			if s.Kind == "exif" {
				e.Parts = []Span{{"tiff", s.DataOff, s.DataOff + len(s.Data)}}
			}
			if s.Len > 0 {
				e.Map = append(e.Map, FieldSpan{"seg.len", s.Off + 2, 2}, FieldSpan{"end:seg", s.Off + 2 + s.Len, 0})
			}
		}
	case CPNG:
		p := DrawPNG(l, parts[0], surround)
		e.Bytes = p.Bytes
		e.Map = append([]FieldSpan{{"png.exif.len", p.ExifOff - 8, 4}, {"end:exif", p.ExifOff + len(parts[0]) + 4, 0}}, p.Map...)
		e.Parts = []Span{{"tiff", p.ExifOff, p.ExifOff + len(parts[0])}}
	case CCR3:
		var o CR3Opts
		o.CMT[0] = parts[0]
		if len(parts) > 1 {
			o.CMT[1] = parts[1]
		}
		if len(parts) > 2 {
			o.CMT[3] = parts[2]
		}
		o.Surround = surround
		o.Use64 = surround
		if surround && l.Bool() {
			o.XMP = []byte("<?xpacket begin='' id='W5M0MpCehiHzreSzNTczkc9d'?><x:xmpmeta xmlns:x='adobe:ns:meta/'></x:xmpmeta><?xpacket end='w'?>")
		}
		if x != nil && x.Chance(1, 3) {
			o.Top64 = 1
		}
		if x != nil && x.Chance(1, 4) {
			o.CTBO = 1 + x.Intn(15)
		}
		if x != nil && x.Chance(1, 6) {
			o.ShortLead = 1 + x.Intn(2) // a CNCV or CTBO box too short to parse, in front of the CMT boxes
		}
		if x != nil && x.Chance(1, 4) {
			o.TopExtra = true // free / unknown boxes between the top-level boxes, also in front of moov
		}
		c := DrawCR3(l, o)
		e.Bytes = c.Bytes
		e.Map = c.Map
		for i, idx := range []int{0, 1, 3} {
			if i < len(parts) && parts[i] != nil {
				e.Parts = append(e.Parts, Span{"cmt", c.CMTOff[idx], c.CMTOff[idx] + len(parts[i])})
			} else {
				e.Parts = append(e.Parts, Span{"cmt", -1, -1})
			}
		}
	case CHEIF:
		var ho HEIFOpts
		if x != nil {
			ho.ItemFirst, ho.Mdat64 = x.Chance(1, 3), x.Chance(1, 3)
			if x.Chance(1, 3) {
				// (the box reader, which avif-branded files are routed through, resolves the Exif item
				// only when iinf precedes iloc: that order is part of this variant)
				ho.AVIFBrand, ho.IinfFirst, e.AVIF = true, true, true
			}
		}
		if y != nil {
			// what HEIF writers do and the payload does not depend on: the order of iloc and iinf,
			// base offsets, an mdat box per item, many items, an item in two extents
			if ho.AVIFBrand && y.Chance(1, 2) {
				ho.IinfFirst = false
			}
			ho.BaseOffset, ho.SecondMdat, ho.MultiExtent = y.Chance(1, 3), y.Chance(1, 3), y.Chance(1, 3)
			if y.Chance(1, 3) {
				ho.ManyItems = []int{1, 7, 60, 150, 200, 260}[y.Intn(6)]
			}
			if y.Chance(1, 4) {
				ho.TiffHdrOff = []int{1, 3, 5, 9, 13}[y.Intn(5)] // header offset 0, 2, 4, 8, 12
			}
		}
		h := DrawHEIFOpts(l, parts[0], surround, ho)
		e.Bytes = h.Bytes
		e.Map = h.Map
		e.Parts = []Span{{"tiff", h.TIFFOff, h.TIFFOff + len(parts[0])}}
	}
	return e
}

// Swap returns a copy of the container with the payload part(s) replaced by blocks of the same
// lengths (the II/MM twin with identical layout and identical surroundings).
func (e *Embedded) Swap(parts [][]byte) []byte {
	out := append([]byte(nil), e.Bytes...)
	for i, sp := range e.Parts {
		if sp.Start < 0 || i >= len(parts) || parts[i] == nil {
			continue
		}
		copy(out[sp.Start:sp.End], parts[i])
	}
	if e.Kind == CPNG && len(e.Parts) == 1 {
		sp := e.Parts[0]
		c := crc32.NewIEEE()
		c.Write([]byte("eXIf"))
		c.Write(out[sp.Start:sp.End])
		binary.BigEndian.PutUint32(out[sp.End:], c.Sum32())
	}
	return out
}
