package props

import (
	"fmt"
	"strconv"
	"strings"
	"time"

	"verifsim/core"
	gengen "verifsim/gen"
	"verifsim/harness"
	"verifsim/world"
)

// C01, C02 and C14 share one family of campaigns over the same workloads — (a) real samples,
// (b) generated well-formed files, (c) flip-corrupted versions, (d) magic + random bytes — and
// differ in the fault space they open and in the oracle:
//
//   C01  every fault kind, every delivery, every reader kind, actors; oracle: the call returns.
//   C02  fault-free device used as a meter (raw reader, whole delivery; eof@k only, which is the
//        input b[:k]); oracle: productive bytes requested <= 4*len+64KiB, tick budget, watchdog.
//   C14  eof@k only (the bound is in bytes the device actually held); oracle: TotalAlloc delta.

type pairInfo struct {
	s, e int
	H    int
}

var decPairs []pairInfo
var decPrefix []uint64 // prefix sums of runs per pair
var decKinds []int

func meterKey(s, e int) string { return fmt.Sprintf("H/%d/%d", s, e) }

func decodeSetup(prop string) func(repo, tier string) error {
	return func(repo, tier string) error {
		if err := LoadSamples(repo); err != nil {
			return err
		}
		harness.MeasureAlloc = prop == "C14"
		decPairs = nil
		decPrefix = nil
		decKinds = []int{1}
		if tier == "thorough" && prop == "C01" {
			decKinds = []int{1, 2, 3, 4, 5}
		}
		var total uint64
		for s := range Samples {
			for e := range harness.Entries {
				v, ok := KV[meterKey(s, e)]
				if !ok {
					continue
				}
				h, _ := strconv.Atoi(v)
				decPairs = append(decPairs, pairInfo{s, e, h})
				total += uint64(truncPoints(tier, h)) * uint64(len(decKinds))
				decPrefix = append(decPrefix, total)
			}
		}
		return nil
	}
}

const quickDense = 768
const quickSparse = 128

// truncPoints: how many truncation points of [0,H] a tier runs for one (file, entry) pair.
func truncPoints(tier string, h int) int {
	if tier == "thorough" || h+1 <= quickDense+quickSparse {
		return h + 1
	}
	return quickDense + quickSparse
}

// truncK maps the j-th point of a pair to a truncation offset.
func truncK(tier string, seed uint64, pair int, h, j int) int {
	if tier == "thorough" || h+1 <= quickDense+quickSparse {
		return j
	}
	if j < quickDense {
		return j
	}
	r := core.NewSplitMix(seed*0x9e3779b97f4a7c15 ^ uint64(pair)<<20 ^ uint64(j))
	return quickDense + r.Intn(h+1-quickDense)
}

const allocConst = 4 << 20

// decodeOracle applies the property's oracle to one finished operation. held = number of bytes
// the device held for this run (len of the stream as delivered).
func decodeOracle(c *Ctx, prop string, e *harness.Entry, res *harness.Result, r *world.SimReader, held int, meterValid bool) {
	if c.PlanOnly {
		return
	}
	switch prop {
	case "C01":
		panicVerdict(c, e, res)
	case "C02":
		if res.Panic != nil && res.Panic.Class == "budget" {
			c.Fail("livelock", e.Name, res.Panic.Func, fmt.Sprintf("device tick budget %d exceeded: the decode keeps calling the device without finishing (calls=%d delivered=%d eofpolls=%d)\n%s", c.Dev.Budget, r.Calls, r.Delivered, r.EOFPolls, res.Panic.Stack))
			return
		}
		if c.Dev.Exceeded {
			c.Fail("livelock", e.Name, "swallowed", "device tick budget exceeded (sentinel swallowed by the library's recover)")
			return
		}
		if res.Panic != nil {
			c.Inc("probe:panic-seen-(C01's subject)")
			return
		}
		if meterValid {
			bound := 4*int64(held) + 64*1024
			if r.ProdReq > bound {
				c.Fail("overread", e.Name, "M1", fmt.Sprintf("productive bytes requested %d > 4*%d+65536 = %d (calls=%d delivered=%d seeks=%d seekback=%d)", r.ProdReq, held, bound, r.Calls, r.Delivered, r.Seeks, r.SeekBack))
			}
			if r.EOFPolls > 2 {
				c.Inc("probe:eof-polls>2")
			}
			if r.SeekBack > 0 {
				c.Inc("probe:backward-seek")
			}
		}
	case "C14":
		if res.Panic != nil {
			c.Inc("probe:panic-seen-(C01's subject)")
		}
		bound := uint64(allocConst) + 16*uint64(held)
		if harness.AllocDelta > bound {
			c.Fail("alloc", e.Name, allocSite(harness.AllocDelta), fmt.Sprintf("allocated %d bytes for a stream of %d bytes (bound %d)", harness.AllocDelta, held, bound))
		}
		if harness.NestedMax > bound {
			c.Fail("alloc", "xmp.ParseXmp", "nested/"+allocSite(harness.NestedMax), fmt.Sprintf("one xmp.ParseXmp call made from a callback of %s allocated %d bytes; the whole stream has %d bytes (bound %d)", e.Name, harness.NestedMax, held, bound))
		}
		if harness.NestedAlloc > 0 {
			c.Inc("probe:nested-parser-calls-accounted-separately")
		}
		if harness.AllocDelta > 64<<10 {
			c.Inc("probe:alloc>64KiB")
		}
	}
}

func allocSite(n uint64) string {
	switch {
	case n >= 1<<30:
		return ">=1GiB"
	case n >= 64<<20:
		return ">=64MiB"
	}
	return ">bound"
}

func decodeProp(prop string) *Prop {
	p := &Prop{ID: prop, Setup: decodeSetup(prop)}
	// a history of the zonehistory campaign is up to 450 000 calls (about 5 s alone); the watchdog
	// leaves room for a loaded machine
	p.RunTimeoutSec = 30
	p.Campaigns = []*Campaign{
		{
			Name: "meter", Phase: 0, Enumerated: true, Weight: 1,
			N: func(tier string, seed uint64) uint64 {
				return uint64(len(Samples) * len(harness.Entries))
			},
			Run: func(c *Ctx) {
				s := int(c.Run) / len(harness.Entries)
				ei := int(c.Run) % len(harness.Entries)
				e := harness.Entries[ei]
				smp := Samples[s]
				c.Dev.Budget = tickBudget(len(smp.Data))
				r := newReader(c.Dev, smp.Data, Fault{}, Delivery{})
				env := &harness.Env{}
				c.Descf("fault-free metered run: file=%s len=%d entry=%s reader=raw delivery=whole", smp.Name, len(smp.Data), e.Name)
				res := invoke(c, e, env, r)
				if c.PlanOnly {
					return
				}
				c.Inc("entry:" + e.Name)
				c.NonTrivial = r.Delivered > 0
				decodeOracle(c, prop, e, res, r, len(smp.Data), true)
				if res.Panic != nil {
					return // pair excluded from the enumeration
				}
				c.Export(meterKey(s, ei), strconv.Itoa(int(r.HighWater)))
				c.Descf("H=%d requested=%d productive=%d delivered=%d calls=%d err=%s", r.HighWater, r.ReqBytes, r.ProdReq, r.Delivered, r.Calls, res.Err)
			},
		},
		{
			Name: "trunc", Phase: 1, Enumerated: true, Weight: 6,
			N: func(tier string, seed uint64) uint64 {
				if len(decPrefix) == 0 {
					return 0
				}
				return decPrefix[len(decPrefix)-1]
			},
			Run: func(c *Ctx) {
				idx := c.Run
				lo, hi := 0, len(decPrefix)-1
				for lo < hi {
					mid := (lo + hi) / 2
					if decPrefix[mid] > idx {
						hi = mid
					} else {
						lo = mid + 1
					}
				}
				pi := decPairs[lo]
				base := uint64(0)
				if lo > 0 {
					base = decPrefix[lo-1]
				}
				rel := int(idx - base)
				nk := len(decKinds)
				kind := decKinds[rel%nk]
				j := rel / nk
				k := truncK(c.Tier, c.Seed, lo, pi.H, j)
				e := harness.Entries[pi.e]
				smp := Samples[pi.s]
				cfg := c.L("cfg")
				env := &harness.Env{}
				if !e.NeedSeek && prop == "C01" {
					env.RK = cfg.Intn(harness.NumRK)
				}
				c.Dev.Budget = tickBudget(len(smp.Data))
				r := newReader(c.Dev, smp.Data, Fault{Kind: kind, K: k}, Delivery{})
				c.Descf("file=%s entry=%s fault=%s k=%d reader=%s delivery=whole", smp.Name, e.Name, FaultNames[kind], k, harness.RKNames[env.RK])
				res := invoke(c, e, env, r)
				if c.PlanOnly {
					return
				}
				c.Inc("fault:" + FaultNames[kind] + ":configured")
				if r.Fired {
					c.Inc("fault:" + FaultNames[kind] + ":fired")
					c.NonTrivial = true
				}
				c.Inc("entry:" + e.Name)
				decodeOracle(c, prop, e, res, r, clampK(k, len(smp.Data)), env.RK == harness.RKRaw)
				c.Descf("result err=%s", res.Err)
			},
		},
		{
			Name: "flip", Phase: 1, Weight: 3,
			N: func(tier string, seed uint64) uint64 {
				if tier == "thorough" {
					return 4000000
				}
				return 200000
			},
			Run: func(c *Ctx) { decodeMixed(c, prop, 0) },
		},
		{
			Name: "random", Phase: 1, Weight: 2,
			N: func(tier string, seed uint64) uint64 {
				if tier == "thorough" {
					return 2000000
				}
				return 100000
			},
			Run: func(c *Ctx) { decodeMixed(c, prop, 1) },
		},
		{
			Name: "gen", Phase: 1, Weight: 4,
			N: func(tier string, seed uint64) uint64 {
				if tier == "thorough" {
					return 4000000
				}
				return 150000
			},
			Run: func(c *Ctx) { decodeMixed(c, prop, 2) },
		},
		{
			// one size/count/length field of a generated file driven to a large or stalling value,
			// decoded by the entry points of that container
			Name: "sizefields", Phase: 1, Weight: 3,
			N: func(tier string, seed uint64) uint64 {
				if tier == "thorough" {
					return 2000000
				}
				return 100000
			},
			Run: func(c *Ctx) { decodeMixed(c, prop, 3) },
		},
		{
			// one run = one process history: from process-start state, up to 150 000 (thorough:
			// 450 000) tiny files whose three zone-offset texts are new at every call; whatever the
			// library keeps per text or per offset across calls must not make a later call exceed
			// its bound (each call of the history is judged on its own)
			Name: "zonehistory", Phase: 1, Weight: 2,
			N: func(tier string, seed uint64) uint64 {
				if tier == "thorough" {
					return 4000
				}
				return 192
			},
			Run: func(c *Ctx) { zoneHistoryRun(c, prop) },
		},
		{
			// XMP start tags nested thousands to millions deep (20 MB inputs, a gigabyte of stack in a
			// recursive parser): every case in a worker process of its own
			Name: "deepnest", Phase: 1, Weight: 1, Fresh: true,
			N: func(tier string, seed uint64) uint64 {
				if tier == "thorough" {
					return 48
				}
				return 6
			},
			Run: func(c *Ctx) { decodeMixed(c, prop, 8) },
		},
		{
			// CR3-shaped files that repeat themselves: what one box may cost, times the number of boxes
			Name: "repeat", Phase: 1, Weight: 1,
			N: func(tier string, seed uint64) uint64 {
				if tier == "thorough" {
					return 400000
				}
				return 20000
			},
			Run: func(c *Ctx) { decodeMixed(c, prop, 7) },
		},
		{
			// ISOBMFF: the last child of a container cut short by its parent (0..24 bytes, every
			// kind of size field) at offsets next to the multiples of the readers' buffer size
			Name: "boxedge", Phase: 1, Weight: 1,
			N: func(tier string, seed uint64) uint64 {
				if tier == "thorough" {
					return 3000000
				}
				return 120000
			},
			Run: func(c *Ctx) { decodeMixed(c, prop, 6) },
		},
		{
			// one token far longer than any look-ahead window (an XMP value or padding run of
			// 70..700 KB), alone or inside a CR3 xpacket box: work and allocation stay linear
			Name: "bigtoken", Phase: 1, Weight: 1,
			N: func(tier string, seed uint64) uint64 {
				if tier == "thorough" {
					return 20000
				}
				return 1500
			},
			Run: func(c *Ctx) { decodeMixed(c, prop, 4) },
		},
	}
	return p
}

var entriesByContainer = map[string][]string{
	"gen:TIFF":         {"Decode", "DecodeTiff", "exif2.Parse", "DecodeCR2", "tiff.ScanTiffHeader"},
	"gen:JPEG":         {"Decode", "DecodeJPEG", "jpeg.ScanJPEG"},
	"gen:JPEG+XMP":     {"Decode", "DecodeJPEG", "jpeg.ScanJPEG"},
	"gen:PNG":          {"DecodePng", "png.ScanPngHeader"},
	"gen:CR3":          {"Decode", "DecodeCR3", "PreviewCR3", "isobmff.Reader"},
	"gen:CR3+XMP+PRVW": {"Decode", "DecodeCR3", "PreviewCR3", "isobmff.Reader"},
	"gen:HEIF":         {"Decode", "DecodeHeif", "isobmff.Reader"},
}

var bigVals = []uint64{0xffffffff, 0x7fffffff, 0x80000000, 0x10000000, 0x01000000, 0x00100000, 0xffff, 0x8000, 0, 1, 2, 7, 8, 0xfffffff4, 0xfffffff8, 0xfffffff0, 0xfffffffc}

// sizeFlip sets one size/count/length field of the layout map to a large or stalling value.
func sizeFlip(l, x *core.Lane, data []byte, fmap []gengen.FieldSpan, desc func(string, ...interface{})) []byte {
	out := append([]byte(nil), data...)
	var cands []gengen.FieldSpan
	for _, f := range fmap {
		n := f.Name
		if strings.Contains(n, "size") || strings.Contains(n, "count") || strings.Contains(n, "len") || strings.Contains(n, "valoff") || strings.Contains(n, "next") || strings.Contains(n, "firstifd") {
			cands = append(cands, f)
		}
	}
	if len(cands) == 0 {
		return out
	}
	fi := l.Intn(len(cands))
	f := cands[fi]
	if f.Off < 0 || f.Off+f.Len > len(out) || f.Len > 8 {
		return out
	}
	v := bigVals[l.Intn(len(bigVals))]
	if l.Chance(1, 4) {
		v = uint64(len(out)) + uint64(l.Intn(64))
	}
	le := l.Bool()
	put := func(f gengen.FieldSpan, v uint64) {
		if f.Off < 0 || f.Off+f.Len > len(out) || f.Len > 8 || f.Len == 0 {
			return
		}
		for j := 0; j < f.Len; j++ {
			if le {
				out[f.Off+j] = byte(v >> (8 * uint(j)))
			} else {
				out[f.Off+j] = byte(v >> (8 * uint(f.Len-1-j)))
			}
		}
		if desc != nil {
			desc("sizeflip field=%s off=%d len=%d value=%#x le=%v", f.Name, f.Off, f.Len, v, le)
		}
	}
	put(f, v)
	// cooperating fields (side lane x; 0 = the single flip above): the size fields next to the
	// chosen one in the layout map (a box size and the size of what it holds), or every field of
	// the same kind (all entry counts of a directory) driven to the same value
	switch x.Intn(4) {
	case 1:
		k := 1 + x.Intn(3)
		for i := 1; i <= k && fi+i < len(cands); i++ {
			put(cands[fi+i], v)
		}
	case 2:
		k := 1 + x.Intn(3)
		for i := 1; i <= k && fi+i < len(cands); i++ {
			put(cands[fi+i], bigVals[x.Intn(len(bigVals))])
		}
	case 3:
		suffix := f.Name
		if i := strings.LastIndex(suffix, "."); i >= 0 {
			suffix = suffix[i:]
		}
		vals := []uint64{v, 0x00100000, 0x00200000, 0x00080000, 0x00400000, 0x0000ffff}
		v2 := vals[x.Intn(len(vals))]
		n := 0
		for _, g := range cands {
			if g.Off != f.Off && g.Len == f.Len && strings.HasSuffix(g.Name, suffix) && n < 60 {
				put(g, v2)
				n++
			}
		}
	}
	return out
}

func init() {
	p := decodeProp("C01")
	p.Level = "fault_enumeration"
	p.Rule = "a run is non-trivial when the injected fault fired (the end/fail point changed what the library observed) or, for corrupted/generated/random inputs, " +
		"when the library obtained at least one byte; distinct = distinct run digests (entry point, device call and byte counts, canonical result or panic site)"
	p.QuickSec, p.ThoroughSec = 60, 900
	p.Assumptions = []string{
		"inputs: real samples up to 4 MiB, generated/random up to 64 KiB; stack exhaustion by multi-megabyte nesting is out of reach",
		"enumeration reduction: a truncation beyond the fault-free high-water request offset H is indistinguishable to the library, so [0,H] covers every distinguishable truncation of that file for that entry point",
		"quick tier sub-samples [0,H] (first 768 offsets + 128 seeded ones per pair); thorough runs all of it in five fault kinds",
	}
	Register(p)

	p = decodeProp("C02")
	p.Level = "exploration"
	p.Rule = "non-trivial = the library obtained at least one byte from the device; distinct = distinct run digests (entry point, device call and byte counts, canonical result)"
	p.QuickSec, p.ThoroughSec = 45, 600
	p.Assumptions = []string{
		"M1 (productive bytes requested) is judged only under raw reader + whole delivery, so that all buffering is the library's own; EOF polls are counted separately",
		"CPU watchdog: 10 s per run in the worker pool, confirmed alone with 30 s; normal cost is nanoseconds per byte",
	}
	Register(p)

	p = decodeProp("C14")
	p.Level = "exploration"
	p.Rule = "non-trivial = the library obtained at least one byte; distinct = distinct run digests (entry point, device counts, canonical result)"
	p.QuickSec, p.ThoroughSec = 40, 400
	p.Assumptions = []string{
		"TotalAlloc is sampled by runtime.ReadMemStats immediately around the library call in a single-goroutine worker with GC off; the harness's canonicalisation is outside the window",
		"the bound's len is the number of bytes the device held for that run (k for eof@k)",
	}
	Register(p)
}

// pickPair picks a (sample, entry) pair from the metered table (entries that actually read the
// file beyond the sniff header are favoured).
func pickPair(l *core.Lane) (pairInfo, bool) {
	if len(decPairs) == 0 {
		return pairInfo{}, false
	}
	i := l.Intn(len(decPairs))
	for tries := 0; tries < 4; tries++ {
		p := decPairs[(i+tries*7)%len(decPairs)]
		if p.H > 64 {
			return p, true
		}
	}
	return decPairs[i], true
}

// drawFault samples a fault from a lane: zero or one end/fail point, optional seek failure,
// optional mid-run corruption.
func drawFault(l *core.Lane, hi int) Fault {
	var f Fault
	if l.Chance(2, 3) {
		f.Kind = 1 + l.Intn(5)
		f.K = biasedK(l, hi)
	}
	if l.Chance(1, 12) {
		f.SeekFail = true
	}
	if l.Chance(1, 8) && hi > 0 {
		f.FlipAt = int64(1 + l.Intn(6))
		f.FlipOff = l.Intn(hi)
		f.FlipVal = byte(flipVals[l.Intn(len(flipVals))])
	}
	return f
}

// biasedK draws a fault point: uniform over [0,hi], or biased to multiples of the 4096-byte
// bufio fill and to the first bytes.
func biasedK(l *core.Lane, hi int) int {
	if hi <= 0 {
		return 0
	}
	switch l.Intn(4) {
	case 1:
		m := hi
		if m > 256 {
			m = 256
		}
		return l.Intn(m + 1)
	case 2:
		b := 4096 * l.Intn(hi/4096+1)
		return clampK(b-1+l.Intn(3), hi)
	default:
		return l.Intn(hi + 1)
	}
}

func drawEnv(c *Ctx, e *harness.Entry, prop string) *harness.Env {
	cfg := c.L("cfg")
	env := &harness.Env{}
	if prop != "C01" {
		return env
	}
	if !e.NeedSeek {
		env.RK = cfg.Intn(harness.NumRK)
	}
	if e.Name == "jpeg.ScanJPEG" || e.Name == "isobmff.Reader" {
		switch cfg.Intn(4) {
		case 1:
			env.NilCB = true
		case 2:
			env.ExifActor = drawActor(c, "act:exif")
			env.XmpActor = drawActor(c, "act:xmp")
			env.PrevActor = drawActor(c, "act:prev")
		case 3:
			env.XmpActor = drawActor(c, "act:xmp")
		}
	}
	return env
}

func decodeMixed(c *Ctx, prop string, class int) {
	gen := c.L("gen")
	var data []byte
	var name string
	var e *harness.Entry
	hi := 0
	random := class == 1
	deep := class == 8
	if deep {
		class = 4
	}
	if class == 7 {
		// a CR3-shaped file that says the same thing many times (many CMT boxes full of long
		// overlapping strings, many preview boxes that declare more than they hold)
		var o gengen.RepeatOpts
		switch gen.Intn(3) {
		case 0:
			o.CMT = 1 + gen.Intn(60)
		case 1:
			o.Prvw = 1 + gen.Intn(150)
		default:
			o.CMT, o.Prvw = 1+gen.Intn(30), 1+gen.Intn(60)
		}
		o.CMTType = gen.Intn(2)
		o.Tags = []int{84, 84, 60, 20, 100, 128}[gen.Intn(6)]
		o.Count = []uint32{4100, 4096, 4095, 1024, 300, 70000, 5000}[gen.Intn(7)]
		o.Step = []int{1, 1, 2, 16, 0}[gen.Intn(5)]
		o.Data = []int{4200, 4200, 1100, 400, 8300}[gen.Intn(5)]
		o.Big = gen.Bool()
		o.PrvwIn = gen.Bool()
		o.PrvwSize = []uint32{131072, 131072, 65536, 131073, 4096, 1 << 20}[gen.Intn(6)]
		o.PrvwData = gen.Intn(40)
		data = gengen.RepeatCR3(o)
		name = fmt.Sprintf("repeatcr3(%+v)", o)
		e = harness.EntryByName([]string{"Decode", "DecodeCR3", "PreviewCR3", "isobmff.Reader"}[gen.Intn(4)])
		// the same blocks, many times, in the other containers (side lane; 0 = the CR3 above)
		switch y := c.L("gen:y"); y.Intn(5) {
		case 1:
			var xmp []byte
			if y.Bool() {
				xmp = sampleXMP(y)
			}
			n := 1 + y.Intn(40)
			data = gengen.RepeatJPEG(o, n, xmp)
			name = fmt.Sprintf("repeatjpeg(n=%d xmp=%d %+v)", n, len(xmp), o)
			e = harness.EntryByName([]string{"Decode", "DecodeJPEG", "jpeg.ScanJPEG"}[y.Intn(3)])
		case 2:
			n := 1 + y.Intn(60)
			data = gengen.RepeatPNG(o, n)
			name = fmt.Sprintf("repeatpng(n=%d %+v)", n, o)
			e = harness.EntryByName([]string{"DecodePng", "png.ScanPngHeader"}[y.Intn(2)])
		case 3:
			// the smallest thing of one kind, thousands of times: what it costs per copy must stay
			// within the per-byte allowance
			kind, sub := y.Intn(8), y.Intn(4)
			if kind == 7 {
				kind = 8
			}
			n := []int{300, 4000, 9000, 25000, 45000}[y.Intn(5)]
			junk := []int{0, 16, 300, 1400}[y.Intn(4)]
			if kind == 3 && n*junk > 3<<20 {
				n = (3 << 20) / junk
			}
			if w := c.L("gen:w"); w.Chance(1, 3) {
				kind, sub, junk = 9+w.Intn(4), w.Intn(10), w.Intn(6)
				n = []int{4000, 25000, 60000, 150000, 400000, 600000}[w.Intn(6)]
				if kind == 12 && n > 40000 {
					n = 40000 // (one callback per box: the harness records every invocation)
				}
			}
			data = gengen.ManyTiny(kind, sub, n, junk)
			name = fmt.Sprintf("manytiny(kind=%d sub=%d n=%d junk=%d)", kind, sub, n, junk)
			if kind == 3 {
				kind = 7 // (the date packets are ManyTiny's default branch)
			}
			ents := map[int][]string{0: {"Decode", "DecodeHeif", "isobmff.Reader"}, 1: {"PreviewCR3", "DecodeCR3", "isobmff.Reader"}, 2: {"jpeg.ScanJPEG", "DecodeJPEG", "Decode"}, 7: {"xmp.ParseXmp"},
				4: {"Decode", "DecodeCR3", "isobmff.Reader"}, 5: {"DecodeJPEG", "Decode", "jpeg.ScanJPEG"}, 6: {"xmp.ParseXmp"}, 8: {"Decode", "isobmff.Reader"}, 9: {"Decode", "isobmff.Reader", "DecodeHeif"}, 10: {"xmp.ParseXmp"}, 11: {"Decode", "isobmff.Reader", "DecodeHeif"}, 12: {"PreviewCR3", "isobmff.Reader", "DecodeCR3"}}[kind]
			e = harness.EntryByName(ents[y.Intn(3)%len(ents)])
		}
		hi = len(data)
	} else if class == 6 {
		// a container's last child cut short by its parent, placed next to a multiple of the
		// pooled readers' 4 KiB buffer (where its header is split between two fills) or anywhere
		var o gengen.EdgeOpts
		o.Layout = gen.Intn(4)
		edge := []int{4096, 4096, 8192, 12288, 2048, 1024}[gen.Intn(6)]
		if gen.Chance(1, 8) {
			o.At = 64 + gen.Intn(9000)
		} else {
			o.At = edge - 26 + gen.Intn(36)
		}
		o.Remain = gen.Intn(25)
		if gen.Chance(2, 3) {
			o.Remain = 7 + gen.Intn(10)
		}
		o.Size = []uint32{1, 0, 8, 16, 2, 7, 9, 12, 24, 0xffffffff, 0x7fffffff, 4096}[gen.Intn(12)]
		if gen.Chance(1, 6) {
			o.Size = uint32(o.Remain)
		}
		o.Type = []string{"free", "CMT1", "uuid", "moov", "meta", "iloc", "iinf", "CTBO", "PRVW", "ipco", "hdlr", "trak"}[gen.Intn(12)]
		if gen.Bool() {
			o.Follow = 16 + gen.Intn(64)
		}
		o.PadInner = gen.Bool()
		data = gengen.EdgeBoxFile(o)
		name = fmt.Sprintf("edgebox(layout=%d at=%d remain=%d size=%#x type=%s follow=%d padinner=%v)", o.Layout, o.At, o.Remain, o.Size, o.Type, o.Follow, o.PadInner)
		names := []string{"Decode", "DecodeCR3", "PreviewCR3", "isobmff.Reader"}
		if o.Layout >= 2 {
			names = []string{"Decode", "DecodeHeif", "isobmff.Reader"}
		}
		e = harness.EntryByName(names[gen.Intn(len(names))])
		hi = len(data)
	} else if class == 4 {
		n := 70000 + gen.Intn(630000)
		val := strings.Repeat("A", n)
		var pkt string
		switch gen.Intn(3) {
		case 0:
			pkt = "<x:xmpmeta xmlns:x='adobe:ns:meta/'><rdf:RDF xmlns:rdf='http://www.w3.org/1999/02/22-rdf-syntax-ns#'><rdf:Description rdf:about='' xmlns:dc='http://purl.org/dc/elements/1.1/'><dc:description><rdf:Alt><rdf:li xml:lang='x-default'>" + val + "</rdf:li></rdf:Alt></dc:description></rdf:Description></rdf:RDF></x:xmpmeta>"
		case 1:
			pkt = "<x:xmpmeta xmlns:x='adobe:ns:meta/'><rdf:RDF xmlns:rdf='http://www.w3.org/1999/02/22-rdf-syntax-ns#'><rdf:Description rdf:about='' xmlns:tiff='http://ns.adobe.com/tiff/1.0/' tiff:Make='" + val + "'/></rdf:RDF></x:xmpmeta>"
		default:
			pkt = "<x:xmpmeta xmlns:x='adobe:ns:meta/'>" + strings.Repeat(" ", n) + "<rdf:RDF xmlns:rdf='http://www.w3.org/1999/02/22-rdf-syntax-ns#'><rdf:Description rdf:about='' xmlns:tiff='http://ns.adobe.com/tiff/1.0/' tiff:Make='x'/></rdf:RDF></x:xmpmeta>"
		}
		if deep {
			// nesting instead of length: start tags inside start tags, thousands to millions deep (a
			// parser that recurses per level pays with stack, which no recover() gives back)
			levels := []int{4500000, 1000, 60000, 1000000}[int(c.Run)%4]
			tag := []string{"<a:b>", "<rdf:Description>", "<x:y z='1'>"}[int(c.Run)/4%3]
			pkt = "<x:xmpmeta xmlns:x='adobe:ns:meta/'><rdf:RDF xmlns:rdf='http://www.w3.org/1999/02/22-rdf-syntax-ns#'>" + strings.Repeat(tag, levels)
			n = len(pkt)
			c.Inc("probe:deeply-nested-xmp")
		}
		if gen.Bool() {
			var o gengen.CR3Opts
			o.CMT[0] = gengen.BuildTIFF(gen, &gengen.Record{}, gengen.LayoutOpts{Canonical: true}).Encode(false).Bytes
			o.XMP = []byte(pkt)
			data, name, e = gengen.DrawCR3(gen, o).Bytes, "gen:CR3+bigxmp", harness.EntryByName("isobmff.Reader")
		} else {
			data, name, e = []byte(pkt), "bigxmp", harness.EntryByName("xmp.ParseXmp")
		}
		hi = len(data)
	} else if class == 3 {
		var fmap []gengen.FieldSpan
		data, name, fmap = generatedInput(c, gen)
		names := entriesByContainer[name]
		if len(names) == 0 {
			names = []string{"Decode"}
		}
		e = harness.EntryByName(names[gen.Intn(len(names))])
		data = sizeFlip(gen, c.L("gen:x"), data, fmap, c.Descf)
		name += "+sizeflip"
		hi = len(data)
	} else if class == 2 {
		var fmap []gengen.FieldSpan
		data, name, fmap = generatedInput(c, gen)
		e = harness.Entries[gen.Intn(len(harness.Entries))]
		switch gen.Intn(3) {
		case 1:
			data = structFlips(gen, data, fmap, c.Descf)
			name += "+structflips"
		case 2:
			data = applyFlips(gen, data, len(data), c.Descf)
			name += "+flips"
		}
		hi = len(data)
	} else if random {
		data, name = randomInput(gen)
		e = harness.Entries[gen.Intn(len(harness.Entries))]
		hi = len(data)
	} else {
		pi, ok := pickPair(gen)
		if !ok {
			return
		}
		e = harness.Entries[pi.e]
		smp := Samples[pi.s]
		hi = pi.H
		data = applyFlips(gen, smp.Data, hi, c.Descf)
		name = smp.Name + "+flips"
	}
	env := drawEnv(c, e, prop)
	var flt Fault
	var dl Delivery
	switch prop {
	case "C01":
		flt = drawFault(c.L("dev:0"), hi)
		dl = drawDelivery(c.L("dev:0"))
	default:
		// C02/C14: eof@k only — the input is b[:k]
		if c.L("dev:0").Chance(1, 3) {
			flt = Fault{Kind: 1, K: biasedK(c.L("dev:0"), hi)}
		}
		// C14: what a decode allocates must not depend on how the same bytes arrive either (a
		// buffer that grows per Read call rather than per byte received)
		if x := c.L("dev:0:x"); prop == "C14" && x.Chance(1, 4) {
			dl = drawDelivery(x)
		}
	}
	c.Dev.Budget = tickBudget(len(data))
	if prop == "C01" || dl.Piece != 0 {
		c.Dev.Budget *= 8 // short-read deliveries multiply device events; C01 does not judge ticks
	}
	r := newReader(c.Dev, data, flt, dl)
	c.Descf("input=%s len=%d entry=%s fault=%s k=%d seekfail=%v flip@t=%d delivery=%s reader=%s", name, len(data), e.Name, FaultNames[flt.Kind], flt.K, flt.SeekFail, flt.FlipAt, dl, harness.RKNames[env.RK])
	if c.Describe && len(data) <= 512 {
		c.Descf("hex=%x", data)
	}
	t0 := time.Now()
	res := invoke(c, e, env, r)
	if c.PlanOnly {
		return
	}
	if prop == "C02" && (class == 7 || class == 3) && res.Panic == nil {
		// "CPU time within a generous per-byte watchdog": the inputs of these campaigns (structures
		// repeated thousands of times; count and size fields driven to their largest values) are the
		// ones that can make a loop run many times per input byte without touching the device. A call
		// that takes longer than 1 s + 2 us per byte (a thousand times the usual cost) is repeated twice; three slow executions in
		// a row are work, not scheduling noise.
		limit := time.Second + time.Duration(len(data))*2*time.Microsecond
		if el := time.Since(t0); el > limit {
			slow := 1
			for k := 0; k < 2; k++ {
				c.Dev.Budget = c.Dev.Seq + tickBudget(len(data))
				t1 := time.Now()
				harness.Invoke(e, env, newReader(c.Dev, data, flt, dl))
				if time.Since(t1) > limit {
					slow++
				}
			}
			if slow == 3 {
				c.Fail("overwork", e.Name, "cpu-per-byte", fmt.Sprintf("the call took %.1f s for %d bytes, three times in a row (allowance 1 s + 2 us per byte): work that does not consume input", el.Seconds(), len(data)))
				return
			}
			c.Inc("probe:slow-call-not-confirmed")
		}
	}
	c.Inc("fault:" + FaultNames[flt.Kind] + ":configured")
	if flt.Kind != 0 && r.Fired {
		c.Inc("fault:" + FaultNames[flt.Kind] + ":fired")
	}
	if flt.SeekFail {
		c.Inc("fault:seekfail:configured")
		if r.Seeks > 0 {
			c.Inc("fault:seekfail:fired")
		}
	}
	if flt.FlipAt > 0 {
		c.Inc("fault:flip@t:configured")
		if r.Calls > flt.FlipAt {
			c.Inc("fault:flip@t:fired")
		}
	}
	if class == 0 {
		c.Inc("fault:flip:configured")
	}
	c.Inc(fmt.Sprintf("input-class:%d", class))
	c.Inc("entry:" + e.Name)
	c.NonTrivial = r.Delivered > 0
	held := len(data)
	if flt.Kind != 0 {
		held = clampK(flt.K, len(data))
	}
	decodeOracle(c, prop, e, res, r, held, true)
	c.Descf("result err=%s", res.Err)
}

// zoneText writes the i-th zone text of a history in the given style. Every style produces
// texts of the shape the Exif standard gives OffsetTime ("+hh:mm"); what varies is how far the
// four "digits" stray from '0'..'9' - bytes a real file does not contain but any file may.
func zoneText(dst []byte, style int, seed uint64, i uint64) {
	r := core.NewSplitMix(seed ^ (i+1)*0x9e3779b97f4a7c15)
	dst[0] = "+-"[i&1]
	dst[3] = ':'
	k := i >> 1
	switch style {
	case 0: // real-world zones: -12:00 .. +14:00 in quarter hours
		h, q := r.Intn(15), r.Intn(4)
		dst[1], dst[2], dst[4], dst[5] = '0'+byte(h/10), '0'+byte(h%10), '0'+byte(q*15/10), '0'+byte(q*15%10)
	case 1: // every text another offset: 60*h+m enumerated, h written with "digits" up to 0xff
		h, m := k/60, k%60
		if h > 2277 {
			h = 2277 - (h % 2278)
		}
		ha := h / 10
		if ha > 207 {
			ha = 207
		}
		dst[1], dst[2], dst[4], dst[5] = '0'+byte(ha), '0'+byte(h-10*ha), '0'+byte(m/10), '0'+byte(m%10)
	case 2: // every text another name, all of them offset zero (bytes below '0' are skipped)
		dst[1], dst[2], dst[4], dst[5] = 0x10+byte(k>>15&31), 0x10+byte(k>>10&31), 0x10+byte(k>>5&31), 0x10+byte(k&31)
	case 3: // random printable and high bytes
		for _, j := range []int{1, 2, 4, 5} {
			dst[j] = 0x21 + byte(r.Intn(0xff-0x21+1))
		}
	default: // random digits: 10^4 texts, most of them no real zone
		for _, j := range []int{1, 2, 4, 5} {
			dst[j] = '0' + byte(r.Intn(10))
		}
	}
}

var zoneHistoryLens = []int{600, 3000, 12000, 40000, 75000, 110000, 150000}

// zoneHistoryRun is one history: Pristine(), then K decodes of a tiny TIFF whose three zone
// texts change at every call. C01 and C02 judge every call as usual. For C14 the first pass
// charges every call with the cheap allocation counter to find candidates (more than a quarter
// of the bound); the verdict comes from a second pass that rebuilds the same history from
// process-start state and measures the candidate calls exactly (runtime.MemStats).
func zoneHistoryRun(c *Ctx, prop string) {
	gen := c.L("gen")
	style := gen.Intn(5)
	lens := zoneHistoryLens
	K := lens[gen.Intn(len(lens))]
	if c.Tier == "thorough" && gen.Chance(1, 4) {
		K *= 3
	}
	K -= gen.Intn(K/8 + 1)
	seed := gen.U64()
	e := harness.EntryByName([]string{"Decode", "DecodeTiff", "exif2.Parse"}[gen.Intn(3)])
	tmpl, at := zoneTemplate(gen)
	env := drawEnv(c, e, prop)
	c.Descf("history of %d calls of %s, zone text style %d, text seed %#x, file length %d, reader=%s", K, e.Name, style, seed, len(tmpl), harness.RKNames[env.RK])
	if c.PlanOnly {
		c.PlanEntry = e.Name
		return
	}
	file := func(i int) []byte { return zoneFile(tmpl, at, style, seed, i) }
	defer func() { harness.SkipCanon = false }()
	call := func(i int) (*harness.Result, *world.SimReader, int) {
		d := file(i)
		harness.SkipCanon = i != 0 && i != K-1
		c.Dev.Budget = c.Dev.Seq + tickBudget(len(d))
		r := newReader(c.Dev, d, Fault{}, Delivery{})
		return harness.Invoke(e, env, r), r, len(d)
	}
	bound := uint64(allocConst) + 16*uint64(len(tmpl))
	harness.Pristine()
	harness.AllocScreen = true
	var cands []int
	var screenMax uint64
	for i := 0; i < K && c.Viol == nil; i++ {
		res, r, n := call(i)
		if i == 0 || i == K-1 {
			c.D.Str(res.Canon())
		}
		c.D.Int(int(r.Delivered))
		switch prop {
		case "C14":
			if res.Panic != nil {
				c.Inc("probe:panic-seen-(C01's subject)")
			}
			if harness.AllocDelta > screenMax {
				screenMax = harness.AllocDelta
			}
			if harness.AllocDelta > bound/4 && len(cands) < 6 {
				cands = append(cands, i)
			}
		default:
			decodeOracle(c, prop, e, res, r, n, true)
		}
	}
	harness.AllocScreen = false
	c.St.C["history:calls"] += int64(K)
	c.Inc(fmt.Sprintf("history:style-%d", style))
	c.Inc("entry:" + e.Name)
	c.NonTrivial = true
	if prop != "C14" {
		return
	}
	if zc := harness.ZoneCacheLen(); zc >= 1000 {
		c.Inc("probe:zone-cache>=1000-entries")
	}
	if len(cands) > 0 {
		c.Inc("history:exact-second-pass")
		harness.Pristine()
		ci := 0
		for i := 0; i <= cands[len(cands)-1]; i++ {
			exact := i == cands[ci]
			harness.MeasureAlloc = exact
			res, _, n := call(i)
			_ = res
			if exact {
				ci++
				b := uint64(allocConst) + 16*uint64(n)
				c.Descf("call %d measured exactly: %d bytes", i, harness.AllocDelta)
				if harness.AllocDelta > b {
					harness.MeasureAlloc = true
					c.Fail("alloc", e.Name, "history/"+allocSite(harness.AllocDelta), fmt.Sprintf("call %d of a history of %d-byte files that differ only in their three zone-offset texts (style %d) allocated %d bytes (bound %d); the calls before it stayed within the bound", i, n, style, harness.AllocDelta, b))
					return
				}
			}
		}
		harness.MeasureAlloc = true
	}
	c.Descf("largest allocation charged to one call by the screen: %d bytes; %d candidate calls", screenMax, len(cands))
}

// zoneTemplate builds a tiny TIFF with the three timestamps and three zone-offset texts, and
// says where the texts are.
func zoneTemplate(gen *core.Lane) (tmpl []byte, at [3]int) {
	rec := &gengen.Record{ModifyDate: &gengen.DateTime{Y: 2020, Mo: 1, D: 2, H: 3, Mi: 4, S: 5}}
	rec.DateOrig, rec.DateDig = rec.ModifyDate, rec.ModifyDate
	marks := []string{"+AA:AA", "+BB:BB", "+CC:CC"}
	rec.Offset, rec.OffsetOrig, rec.OffsetDig = &marks[0], &marks[1], &marks[2]
	tmpl = gengen.TIFFFile(gen, gengen.BuildTIFF(gen, rec, gengen.LayoutOpts{Canonical: true}).Encode(gen.Bool()).Bytes, false)
	for j, m := range marks {
		at[j] = strings.Index(string(tmpl), m)
		if at[j] < 0 {
			panic("verif: zone text marker not found in the generated file")
		}
	}
	return
}

// zoneFile is the i-th file of a history: the template with its three zone texts replaced.
func zoneFile(tmpl []byte, at [3]int, style int, seed uint64, i int) []byte {
	d := append([]byte(nil), tmpl...)
	for j := 0; j < 3; j++ {
		zoneText(d[at[j]:at[j]+6], style, seed, uint64(i)*3+uint64(j))
	}
	return d
}
