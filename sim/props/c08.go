package props

import (
	"fmt"
	"strings"

	"verifsim/gen"
	"verifsim/harness"
	"verifsim/world"
)

// C08 — results do not depend on how the reader chunks its data (DESIGN §5 C08).
//
// Each run decodes one input twice on the simulated device: once with whole delivery (what a
// bytes.Reader does) and once under a delivery schedule (constant piece sizes, per-call random
// sizes, dribble-then-flood, structure-aligned piece ends; final piece with or without io.EOF).
// A legal delivery schedule is not a fault, so nothing may "fail or lose data": value, error
// and everything the callback actors obtained must be identical.

func c08Budget(n int) int64 { return 1<<22 + 16*int64(n) }

func c08Compare(c *Ctx, o *opCase, d Delivery) {
	c.Dev.Budget = c08Budget(len(o.data))
	harness.Pristine()
	whole, _ := o.run(c, Delivery{})
	harness.Pristine()
	// "any reader that delivers the same byte stream": for the entry points that take a plain
	// io.Reader the device may also be one whose Seek method fails (a pipe, a forward-only wrapper)
	x := c.L("dev:0:x")
	seekFail := !o.e.NeedSeek && x.Chance(1, 4)
	// ... or the rest of a larger stream: the caller has read (or skipped with Seek) what comes
	// before - a container around the image, another image - and hands the reader over where it
	// stands; what the reader delivers from there on is the same byte stream
	var before []byte
	seekTo := false
	// (png.ScanPngHeader reports where the Exif data lies in the source, an absolute position that
	// moves with what precedes the stream: not compared; DecodePng, which uses it, is)
	if !strings.HasPrefix(o.e.Name, "imagetype.") && !strings.HasPrefix(o.e.Name, "imagehash.") && o.e.Name != "png.ScanPngHeader" && x.Chance(1, 5) {
		n := []int{1, 37, 512, 4095, 4096, 5000, 4060, 8150}[x.Intn(8)] + x.Intn(40)
		before = gen.ScreenTIFF(x.Sub().Bytes(n))
		seekTo = !seekFail && x.Bool()
		c.Inc("fault:handed-over-midstream:configured")
	}
	chunked, r := o.runAt(c, d, seekFail, before, seekTo)
	if c.PlanOnly {
		return
	}
	if seekFail {
		c.Inc("fault:seek-fails(io.Reader entry points):configured")
		if r.Seeks > 0 {
			c.Inc("fault:seek-fails(io.Reader entry points):fired")
		}
	}
	c.Inc("entry:" + o.e.Name)
	if (whole.Panic != nil && whole.Panic.Class == "budget") || (chunked.Panic != nil && chunked.Panic.Class == "budget") {
		c.Inc("probe:tick-budget-exceeded (skipped)")
		return
	}
	if r.ShortReads > 0 {
		c.NonTrivial = true
		c.Inc("fault:short-read:fired")
	}
	if d.DataEOF {
		c.Inc("fault:data+eof:configured")
	}
	if whole.Panic != nil {
		c.Inc("probe:panic-seen-(C01's subject)")
	}
	if !whole.ErrNil {
		c.Inc("probe:failing-input-compared")
	}
	if site, detail := resultDiff(whole, chunked); site != "" {
		c.Fail("mismatch", o.e.Name, site, fmt.Sprintf("whole delivery vs %s (seek fails: %v, %d bytes taken from the stream before the call, by seek: %v): %s", d, seekFail, len(before), seekTo, detail))
	}
	c.Descf("whole: err=%s; chunked(%s): err=%s shortreads=%d calls=%d", whole.Err, d, chunked.Err, r.ShortReads, r.Calls)
	if c.Describe {
		for _, k := range whole.Fields.K {
			if strings.Contains(k, "Actor") {
				c.Descf("  %s: whole=%s chunked=%s", k, whole.Fields.Get(k), chunked.Fields.Get(k))
			}
		}
	}
}

func init() {
	p := &Prop{
		ID:    "C08",
		Level: "fault_enumeration",
		Rule: "a run is non-trivial when at least one Read returned fewer bytes than requested while more were available (the schedule changed what the library observed); " +
			"distinct = distinct run digests (entry point, device call and byte counts of both executions, canonical results)",
		QuickSec: 45, ThoroughSec: 600,
		Setup: func(repo, tier string) error { return LoadSamples(repo) },
		Assumptions: []string{
			"enumerated: every real sample (first 768 KiB) x every entry point x 17 constant piece sizes x {data+eof, eof-after}; sampled by seed: generated/corrupted/random/truncated inputs, per-call random sizes, dribble-then-flood, structure-aligned piece ends, reader kinds, callback actors",
			"(0, nil) reads are never produced (the property says positive read sizes)",
			"both executions start from pristine shared state, so a difference is never a C04 effect",
		},
	}
	nEnum := func() uint64 { return uint64(len(Samples) * len(harness.Entries) * len(constSizes) * 2) }
	p.Campaigns = []*Campaign{
		{
			Name: "enum-samples", Enumerated: true, Weight: 3,
			N: func(tier string, seed uint64) uint64 { return nEnum() },
			Run: func(c *Ctx) {
				idx := int(c.Run)
				dataEOF := idx%2 == 1
				idx /= 2
				size := constSizes[idx%len(constSizes)]
				idx /= len(constSizes)
				e := harness.Entries[idx%len(harness.Entries)]
				s := Samples[idx/len(harness.Entries)]
				data := s.Data
				if len(data) > sampleCap {
					data = data[:sampleCap]
				}
				o := &opCase{data: data, name: s.Name, e: e, trunc: -1}
				if !e.NeedSeek {
					o.spec.RK = c.L("cfg").Intn(harness.NumRK)
				}
				d := Delivery{Piece: world.PieceConst, Const: size, DataEOF: dataEOF}
				c.Descf("%s delivery=%s", o, d)
				c.Inc("fault:short(const):configured")
				c08Compare(c, o, d)
			},
		},
		{
			Name: "sampled", Weight: 5,
			N: func(tier string, seed uint64) uint64 {
				if tier == "thorough" {
					return 3000000
				}
				return 150000
			},
			Run: func(c *Ctx) {
				g := c.L("gen")
				o := drawOp(c, g, true)
				dl := c.L("dev:0")
				var d Delivery
				if len(o.fmap) > 0 && dl.Chance(1, 4) {
					d = Delivery{Piece: world.PieceAligned, Bounds: boundsFromMap(o.fmap, len(o.data)), DataEOF: dl.Bool()}
					c.Inc("fault:short(aligned):configured")
				} else {
					d = drawDelivery(dl)
					c.Inc("fault:short(" + []string{"whole", "const", "random", "dribble", "aligned"}[d.Piece] + "):configured")
				}
				c.Descf("%s delivery=%s", o, d)
				if c.Describe && len(o.data) <= 600 {
					c.Descf("hex=%x", o.data)
				}
				c08Compare(c, o, d)
			},
		},
		{
			// CR3 files that end with their preview box (no mdat behind it): the last bytes of the
			// preview are the last bytes of the stream, and may arrive together with its end
			Name: "preview-last", Weight: 1,
			N: func(tier string, seed uint64) uint64 {
				if tier == "thorough" {
					return 200000
				}
				return 15000
			},
			Run: func(c *Ctx) {
				g := c.L("gen")
				var o gen.CR3Opts
				o.CMT[0] = gen.BuildTIFF(g, gen.DrawRecord(g, 40), gen.LayoutOpts{Canonical: true}).Encode(g.Bool()).Bytes
				n := []int{40, 900, 4000, 4100, 8200, 12400, 20000}[g.Intn(7)] + g.Intn(200)
				o.Preview = append([]byte{0xff, 0xd8, 0xff, 0xdb}, g.Sub().Bytes(n)...)
				o.Tail = 1
				if g.Bool() {
					o.XMP = []byte("<x:xmpmeta xmlns:x='adobe:ns:meta/'></x:xmpmeta>")
				}
				cr := gen.DrawCR3(g, o)
				op := &opCase{data: cr.Bytes, name: fmt.Sprintf("cr3-preview-last(%d)", len(o.Preview)), e: harness.EntryByName([]string{"PreviewCR3", "isobmff.Reader"}[g.Intn(2)]), trunc: -1}
				if !op.e.NeedSeek {
					op.spec.RK = c.L("cfg").Intn(harness.NumRK)
				}
				d := drawDelivery(c.L("dev:0"))
				if g.Bool() {
					d.DataEOF = true
				}
				c.Inc("fault:short(" + []string{"whole", "const", "random", "dribble", "aligned"}[d.Piece] + "):configured")
				c.Descf("%s delivery=%s", op, d)
				c08Compare(c, op, d)
			},
		},
		{
			// XMP streams that end (or go on) where the parser's 1538-byte window ends: a root start
			// tag or a token that fills the window exactly, with the end of the stream behind it
			Name: "xmp-window-edge", Weight: 1,
			N: func(tier string, seed uint64) uint64 {
				if tier == "thorough" {
					return 200000
				}
				return 20000
			},
			Run: func(c *Ctx) {
				g := c.L("gen")
				fill := func(n int) string {
					b := make([]byte, n)
					for i := range b {
						b[i] = "a b='c'\n"[g.Intn(8)]
					}
					return string(b)
				}
				n := 1538 - 12 + g.Intn(24)
				if g.Chance(1, 4) {
					n = g.Intn(3200)
				}
				var pkt string
				switch g.Intn(4) {
				case 0: // the root start tag never ends
					pkt = "<x:xmpmeta" + fill(n)
				case 1: // ... or ends behind the window
					pkt = "<x:xmpmeta" + fill(n) + "><rdf:RDF xmlns:rdf='http://www.w3.org/1999/02/22-rdf-syntax-ns#'><rdf:Description rdf:about='' xmlns:tiff='http://ns.adobe.com/tiff/1.0/' tiff:Make='x'/></rdf:RDF></x:xmpmeta>"
				case 2: // an attribute value that never ends
					pkt = "<x:xmpmeta xmlns:x='adobe:ns:meta/'><rdf:RDF xmlns:rdf='http://www.w3.org/1999/02/22-rdf-syntax-ns#'><rdf:Description rdf:about='' xmlns:tiff='http://ns.adobe.com/tiff/1.0/' tiff:Make='" + strings.Repeat("m", n)
				default: // an element value that never ends
					pkt = "<x:xmpmeta xmlns:x='adobe:ns:meta/'><rdf:RDF xmlns:rdf='http://www.w3.org/1999/02/22-rdf-syntax-ns#'><rdf:Description rdf:about='' xmlns:tiff='http://ns.adobe.com/tiff/1.0/'><tiff:Make>" + strings.Repeat("m", n)
				}
				if g.Chance(1, 3) {
					pkt = fill(g.Intn(40)) + pkt
				}
				o := &opCase{data: []byte(pkt), name: fmt.Sprintf("xmp-edge(len=%d)", len(pkt)), e: harness.EntryByName("xmp.ParseXmp"), trunc: -1}
				o.spec.RK = c.L("cfg").Intn(harness.NumRK)
				d := drawDelivery(c.L("dev:0"))
				c.Inc("fault:short(" + []string{"whole", "const", "random", "dribble", "aligned"}[d.Piece] + "):configured")
				c.Descf("%s delivery=%s", o, d)
				c08Compare(c, o, d)
			},
		},
		{
			// the reader exif2.NewIfdReader returns, called directly on an Exif block (as a
			// container scanner calls it) with the caller's own reader: the block ends the stream,
			// is cut short, or is followed by other bytes
			Name: "ifd-direct", Weight: 1,
			N: func(tier string, seed uint64) uint64 {
				if tier == "thorough" {
					return 400000
				}
				return 30000
			},
			Run: func(c *Ctx) {
				g := c.L("gen")
				rec := gen.DrawRecord(g, 300)
				ly := gen.BuildTIFF(g, rec, gen.LayoutOpts{Foreign: g.Intn(4)})
				data := ly.Encode(g.Bool()).Bytes
				switch g.Intn(4) {
				case 0:
					data = append(append([]byte(nil), data...), gen.ScreenTIFF(g.Sub().Bytes(1+g.Intn(40)))...)
				case 1:
					data = data[:g.Intn(len(data)+1)]
				}
				o := &opCase{data: data, name: "tiff-block", e: harness.EntryByName([]string{"exif2.DecodeJPEGIfd", "exif2.DecodeIfd"}[g.Intn(2)]), trunc: -1}
				o.spec.RK = c.L("cfg").Intn(harness.NumRK)
				d := drawDelivery(c.L("dev:0"))
				c.Inc("fault:short(" + []string{"whole", "const", "random", "dribble", "aligned"}[d.Piece] + "):configured")
				c.Descf("%s delivery=%s", o, d)
				if c.Describe && len(o.data) <= 600 {
					c.Descf("hex=%x", o.data)
				}
				c08Compare(c, o, d)
			},
		},
	}
	Register(p)
}
