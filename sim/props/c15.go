package props

import (
	"fmt"

	"verifsim/gen"
	"verifsim/harness"
	"verifsim/world"
)

// C15 — logging is neutral; the default configuration is silent (DESIGN §5 C15).
//
// Each run executes one operation under the process-default configuration and again under a
// drawn configuration (level x sink behaviour) installed through imagemeta.SetLogger. Oracle:
// (1) value and error are identical and no panic appears under the configuration that does not
// appear under the default; (2) while the default configuration is in force, the files behind
// fd 1 and fd 2 of the worker do not grow.

// valueSink is an io.Writer passed by value whose type is not comparable.
type valueSink struct {
	s    *world.SimSink
	note func()
}

func (v valueSink) Write(p []byte) (int, error) { return v.s.Write(p) }

func c15Run(c *Ctx, o *opCase, level, sinkMode int) {
	c.Dev.Budget = c08Budget(len(o.data))
	harness.LogDefault()
	harness.Pristine()
	o1, e1, reg := harness.FdSizes()
	def, _ := o.run(c, Delivery{})
	o2, e2, _ := harness.FdSizes()
	if c.PlanOnly {
		return
	}
	c.Inc("entry:" + o.e.Name)
	if !reg {
		c.Inc("probe:fd1/fd2 not regular files (silence clause unobservable)")
	} else {
		c.Inc("probe:silence-checked")
		if o2 != o1 {
			c.Fail("stdout", o.e.Name, "fd1", fmt.Sprintf("%d bytes written to standard output during one call under the default configuration", o2-o1))
		} else if e2 != e1 {
			c.Fail("stdout", o.e.Name, "fd2", fmt.Sprintf("%d bytes written to standard error during one call under the default configuration", e2-e1))
		}
	}
	if def.Panic != nil && def.Panic.Class == "budget" {
		c.Inc("probe:tick-budget-exceeded (skipped)")
		return
	}
	sink := &world.SimSink{Dev: c.Dev, Mode: sinkMode}
	if c.L("cfg:x").Chance(1, 5) {
		// "any writer": one that is passed by value and cannot be compared (a struct with a func
		// field, like zerolog.ConsoleWriter), configured twice in a row as a program that changes
		// its level does
		vs := valueSink{s: sink, note: func() {}}
		if pi := harness.Guard(func() {
			harness.LogConfigure(vs, level)
			harness.LogConfigure(vs, level)
		}); pi != nil {
			harness.LogDefault()
			c.Fail("panic", "SetLogger", pi.Func+"/"+pi.Class, fmt.Sprintf("configuring the logger twice with a writer passed by value panics: %s", pi.Value))
			return
		}
		c.Inc("cfg.writer:uncomparable-value-configured-twice")
	} else {
		harness.LogConfigure(sink, level)
	}
	harness.Pristine()
	cfg, _ := o.run(c, Delivery{})
	harness.LogDefault()
	c.D.Int(int(sink.Writes)) // not the content: zerolog stamps every event with the wall clock
	c.Inc("cfg.level:" + harness.LogLevelNames[level])
	c.Inc("fault:sink-" + world.SinkNames[sinkMode] + ":configured")
	if sink.Failed > 0 {
		c.Inc("fault:sink-" + world.SinkNames[sinkMode] + ":fired")
	}
	if sink.Writes > 0 {
		c.NonTrivial = true
		c.Inc("probe:log-events-written")
	}
	if def.Panic != nil {
		c.Inc("probe:panic-seen-(C01's subject)")
	}
	if !def.ErrNil {
		c.Inc("probe:failing-input-compared")
	}
	if cfg.Panic != nil && cfg.Panic.Class == "budget" {
		c.Inc("probe:tick-budget-exceeded (skipped)")
		return
	}
	if cfg.Panic != nil && def.Panic == nil {
		c.Fail("panic", o.e.Name, cfg.Panic.Func+"/"+cfg.Panic.Class, fmt.Sprintf("panics only with logger level=%s sink=%s: %s\n%s", harness.LogLevelNames[level], world.SinkNames[sinkMode], cfg.Panic.Value, cfg.Panic.Stack))
		return
	}
	if site, detail := resultDiff(def, cfg); site != "" {
		c.Fail("mismatch", o.e.Name, site, fmt.Sprintf("default configuration vs level=%s sink=%s: %s", harness.LogLevelNames[level], world.SinkNames[sinkMode], detail))
	}
	c.Descf("default: err=%s; level=%s sink=%s: err=%s log-writes=%d log-bytes=%d", def.Err, harness.LogLevelNames[level], world.SinkNames[sinkMode], cfg.Err, sink.Writes, sink.Bytes)
}

// c15History: the operation is a decode of a tiny TIFF with zone-offset texts that the process
// has not seen, after a history of such files (0..2 200 of them, at the default level) that fills
// whatever the library keeps per offset; then the same comparison as c15Run. Code that only runs
// when a process-wide cache is full and a level is enabled is reached nowhere else.
func c15History(c *Ctx) {
	g := c.L("gen")
	cfg := c.L("cfg")
	level := cfg.Intn(len(harness.LogLevels))
	sinkMode := cfg.Intn(4)
	files := []int{0, 100, 340, 345, 400, 750}[g.Intn(6)]
	style := []int{1, 1, 3, 4}[g.Intn(4)]
	seed := g.U64()
	tmpl, at := zoneTemplate(g)
	e := harness.EntryByName([]string{"Decode", "DecodeTiff", "exif2.Parse"}[g.Intn(3)])
	c.Descf("history of %d files with new zone offsets (style %d) at the default level, then one more under level=%s sink=%s through %s", files, style, harness.LogLevelNames[level], world.SinkNames[sinkMode], e.Name)
	if c.PlanOnly {
		c.PlanEntry = e.Name
		return
	}
	harness.LogDefault()
	harness.Pristine()
	harness.SkipCanon = true
	for i := 0; i < files; i++ {
		d := zoneFile(tmpl, at, style, seed, i)
		c.Dev.Budget = c.Dev.Seq + tickBudget(len(d))
		harness.Invoke(e, &harness.Env{}, newReader(c.Dev, d, Fault{}, Delivery{}))
	}
	harness.SkipCanon = false
	run := func(i int) *harness.Result {
		d := zoneFile(tmpl, at, style, seed, i)
		c.Dev.Budget = c.Dev.Seq + tickBudget(len(d))
		return invoke(c, e, &harness.Env{}, newReader(c.Dev, d, Fault{}, Delivery{}))
	}
	def := run(files)
	sink := &world.SimSink{Dev: c.Dev, Mode: sinkMode}
	harness.LogConfigure(sink, level)
	cfgd := run(files + 1)
	harness.LogDefault()
	// the two files differ only in their zone texts: compare each with the same file decoded on
	// process-start state under the default configuration
	harness.Pristine()
	ref := run(files + 1)
	harness.Pristine()
	c.D.Int(int(sink.Writes))
	c.Inc("entry:" + e.Name)
	c.Inc("cfg.level:" + harness.LogLevelNames[level])
	c.Inc(fmt.Sprintf("history:%d-files", files))
	if harness.ZoneCacheLen() == 0 && files > 0 {
		c.Inc("probe:history-left-no-zone-cache")
	}
	c.NonTrivial = sink.Writes > 0 || files > 0
	_ = def
	if cfgd.Panic != nil && ref.Panic == nil {
		c.Fail("panic", e.Name, cfgd.Panic.Func+"/"+cfgd.Panic.Class, fmt.Sprintf("panics only with logger level=%s sink=%s after a history of %d files: %s", harness.LogLevelNames[level], world.SinkNames[sinkMode], files, cfgd.Panic.Value))
		return
	}
	if site, detail := resultDiff(ref, cfgd); site != "" {
		c.Fail("mismatch", e.Name, "history:"+site, fmt.Sprintf("default configuration on process-start state vs level=%s sink=%s after a history of %d files: %s", harness.LogLevelNames[level], world.SinkNames[sinkMode], files, detail))
	}
}

func init() {
	p := &Prop{
		ID:    "C15",
		Level: "exploration",
		Rule: "a run is non-trivial when the configured logger actually received at least one event (the configuration changed what the library executed); " +
			"distinct = distinct run digests (entry point, device counts, canonical results, number of log writes)",
		QuickSec: 45, ThoroughSec: 480,
		// a call that returns under the default configuration and never returns under another one
		// has had its result changed by the configuration: a confirmed hang is this property's
		HangKind: "stall",
		Setup: func(repo, tier string) error {
			if err := LoadSamples(repo); err != nil {
				return err
			}
			if _, _, reg := harness.FdSizes(); !reg {
				return fmt.Errorf("fd 1 / fd 2 of the worker are not regular files: the silence clause would be unobservable")
			}
			return nil
		},
		Assumptions: []string{
			"configurations: level in {panic(default), trace, debug, info, warn, error, fatal, disabled} x sink in {ok, error, short-write, flaky}; the untouched process default is restored from the package variables' start-up values",
			"silence is judged only while the default configuration is in force; under a failing sink zerolog itself reports to stderr, which is outside the clause",
			"fd 1 / fd 2 of every worker (pool and solo) are regular files owned by the orchestrator; the worker speaks only on fd 3",
		},
	}
	nLv, nSk := len(harness.LogLevels), 4
	p.Campaigns = []*Campaign{
		{
			// every real sample x entry point x level, accepting sink
			Name: "enum-samples", Enumerated: true, Weight: 2,
			N: func(tier string, seed uint64) uint64 { return uint64(len(Samples) * len(harness.Entries) * nLv) },
			Run: func(c *Ctx) {
				idx := int(c.Run)
				level := idx % nLv
				idx /= nLv
				e := harness.Entries[idx%len(harness.Entries)]
				s := Samples[idx/len(harness.Entries)]
				data := s.Data
				if len(data) > sampleCap {
					data = data[:sampleCap]
				}
				o := &opCase{data: data, name: s.Name, e: e, trunc: -1}
				c.Descf("%s level=%s sink=ok", o, harness.LogLevelNames[level])
				c15Run(c, o, level, world.SinkOK)
			},
		},
		{
			Name: "sampled", Weight: 5,
			N: func(tier string, seed uint64) uint64 {
				if tier == "thorough" {
					return 3000000
				}
				return 150000
			},
			Run: func(c *Ctx) {
				o := drawOp(c, c.L("gen"), true)
				if y := c.L("gen:y"); y.Chance(1, 16) {
					// malformed box trees in which error handling decides what is read next (an iref box
					// that declares more than meta has left, with a child that declares more than iref):
					// error handling is where log-level guards sit
					tiff := gen.BuildTIFF(y, gen.DrawRecord(y, 60), gen.LayoutOpts{Canonical: true}).Encode(y.Bool()).Bytes
					h := gen.DrawHEIFOpts(y, tiff, y.Bool(), gen.HEIFOpts{Iref: true, IrefBad: true, Brands: y.Intn(3)})
					o = &opCase{data: h.Bytes, name: "gen:HEIF(iref overstated)", fmap: h.Map, trunc: -1,
						e: harness.EntryByName([]string{"isobmff.Reader", "DecodeHeif", "Decode"}[y.Intn(3)])}
					if y.Bool() {
						o.data, o.name, o.fmap = gen.AVIFIrefOverstated(tiff, []int{1000, 8, 100000}[y.Intn(3)]), "gen:AVIF(iref overstated)", nil
					}
				}
				cfg := c.L("cfg")
				level := cfg.Intn(nLv)
				sink := cfg.Intn(nSk)
				c.Descf("%s level=%s sink=%s", o, harness.LogLevelNames[level], world.SinkNames[sink])
				if c.Describe && len(o.data) <= 600 {
					c.Descf("hex=%x", o.data)
				}
				c15Run(c, o, level, sink)
			},
		},
		{
			Name: "zone-history", Weight: 1,
			N: func(tier string, seed uint64) uint64 {
				if tier == "thorough" {
					return 60000
				}
				return 3000
			},
			Run: c15History,
		},
	}
	Register(p)
}
