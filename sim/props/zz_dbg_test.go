package props
import ("testing";"bytes";"os";"runtime";"runtime/pprof"; imagemeta "github.com/evanoberholster/imagemeta"; gengen "verifsim/gen")
func TestZZ(t *testing.T){
	runtime.MemProfileRate=1
	data:=gengen.RepeatCR3(gengen.RepeatOpts{CMT:38,Tags:84,Count:4100,Step:1,Data:4200,PrvwSize:131072})
	var m0,m1 runtime.MemStats
	runtime.ReadMemStats(&m0)
	e,err:=imagemeta.DecodeCR3(bytes.NewReader(data))
	runtime.ReadMemStats(&m1)
	t.Log(len(data),err,m1.TotalAlloc-m0.TotalAlloc,len(e.Make), len(e.Model))
	f,_:=os.Create("/var/tmp/verif-scratch/zz.mprof"); pprof.Lookup("allocs").WriteTo(f,0); f.Close()
}
