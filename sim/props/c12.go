package props

import (
	"bytes"
	"encoding/binary"
	"fmt"
	"io"

	"verifsim/core"
	"verifsim/gen"
	"verifsim/harness"
)

// C12 — TIFF header search reports the first TIFF signature at any offset, exactly
// (DESIGN §5 C12). Reference: the leftmost index i with b[i:i+4] in {II*\0, MM\0*}, computed by a
// four-line scan. The enumerated campaign feeds every prefix over the signature alphabet up to
// a length bound (fixed corpus with a reference model); the sampled campaign varies delivery
// schedule, reader kind, long partial-signature-rich prefixes, first-IFD offsets and the bytes
// after the header; the position clause is observed through a harness-owned bufio.Reader.

var sigAlphabet = []byte{'I', 'M', '*', 0x00, 'x'}

// refSearch is the reference model.
func refSearch(b []byte) (off int, big bool, first uint32, found bool) {
	for i := 0; i+4 <= len(b); i++ {
		if b[i] == 'I' && b[i+1] == 'I' && b[i+2] == '*' && b[i+3] == 0 {
			if i+8 <= len(b) {
				first = binary.LittleEndian.Uint32(b[i+4:])
			}
			return i, false, first, true
		}
		if b[i] == 'M' && b[i+1] == 'M' && b[i+2] == 0 && b[i+3] == '*' {
			if i+8 <= len(b) {
				first = binary.BigEndian.Uint32(b[i+4:])
			}
			return i, true, first, true
		}
	}
	return 0, false, 0, false
}

// prefixByIndex returns the idx-th string over the alphabet in length-then-lexicographic order.
func prefixByIndex(idx uint64) []byte {
	k := 0
	block := uint64(1)
	for idx >= block {
		idx -= block
		block *= uint64(len(sigAlphabet))
		k++
	}
	out := make([]byte, k)
	for i := k - 1; i >= 0; i-- {
		out[i] = sigAlphabet[idx%uint64(len(sigAlphabet))]
		idx /= uint64(len(sigAlphabet))
	}
	return out
}

func prefixCount(maxLen int) uint64 {
	n, block := uint64(0), uint64(1)
	for k := 0; k <= maxLen; k++ {
		n += block
		block *= uint64(len(sigAlphabet))
	}
	return n
}

func c12MaxLen(tier string) int {
	if tier == "thorough" {
		return 10
	}
	return 7
}

const c12Batch = 512

// c12Judge runs the search on one stream and applies the oracle. strict=false (fewer than 28
// bytes after the signature): only "returns" is required.
func c12Judge(c *Ctx, stream []byte, rk int, d Delivery, strict bool, what string) bool {
	e := harness.EntryByName("tiff.ScanTiffHeader")
	c.Dev.Budget = c.Dev.Seq + c08Budget(len(stream))
	// the search takes a plain io.Reader: a device whose Seek method fails (a pipe) is a stream like
	// any other
	seekFail := c.L("dev:0:x").Chance(1, 3)
	if seekFail {
		what += " (device Seek fails)"
		c.Inc("fault:seek-fails:configured")
	}
	// the search may start in the middle of a stream the caller has partly consumed (through the
	// same reader): offsets are counted from where it starts
	env := &harness.Env{RK: rk}
	content := stream
	if x := c.L("dev:0:x"); x.Chance(1, 4) {
		n := []int{1, 40, 4060, 4096, 8150}[x.Intn(5)] + x.Intn(40)
		content = append(gen.ScreenTIFF(x.Sub().Bytes(n)), stream...)
		env.Prepos, env.PreposSeek = n, !seekFail && x.Chance(1, 3)
		what += fmt.Sprintf(" (%d bytes consumed before the search)", n)
		c.Inc("probe:search-starts-midstream")
	}
	r := newReader(c.Dev, content, Fault{SeekFail: seekFail}, d)
	res := invoke(c, e, env, r)
	if c.PlanOnly {
		return true
	}
	if res.Panic != nil {
		if res.Panic.Class == "budget" {
			c.Fail("mismatch", e.Name, "no-return", "header search exceeded the device tick budget: "+what)
		} else {
			c.Fail("mismatch", e.Name, "panic:"+res.Panic.Func, "header search panicked: "+res.Panic.Value+" ("+what+")")
		}
		return false
	}
	if !strict {
		return true
	}
	off, big, first, found := refSearch(stream)
	if found && off+32 > len(stream) {
		return true // fewer than 28 bytes after the first signature: the property is silent
	}
	if !found {
		if res.ErrNil || !bytes.Contains([]byte(res.Err), []byte("meta.ErrNoExif")) {
			c.Fail("mismatch", e.Name, "no-signature", fmt.Sprintf("stream without a signature: err=%s header=%s (want the 'no Exif' error); %s", res.Err, res.Fields.Get("Header"), what))
			return false
		}
		return true
	}
	bo := "LittleEndian"
	if big {
		bo = "BigEndian"
	}
	want := fmt.Sprintf("bo=%s first=%d tiff=%d ", bo, first, off)
	got := res.Fields.Get("Header")
	if !res.ErrNil || len(got) < len(want) || got[:len(want)] != want {
		site := "offset"
		if res.ErrNil && res.Header != nil && int(res.Header.TiffHeaderOffset) == off {
			site = "header-fields"
		}
		if !res.ErrNil {
			site = "not-found"
		}
		c.Fail("mismatch", e.Name, site, fmt.Sprintf("first signature at %d (%s, first IFD %d); search reports err=%s header=%q; %s", off, bo, first, res.Err, got, what))
		return false
	}
	// position clause: the harness owns the bufio.Reader, the next bytes readable are b[off:]
	if res.Br != nil && res.Br.Size() >= 32 {
		rest, _ := io.ReadAll(res.Br)
		c.Inc("probe:position-checked")
		if !bytes.Equal(rest, stream[off:]) {
			c.Fail("position", e.Name, "stream-position", fmt.Sprintf("after the search the reader yields %d bytes, the stream from the reported header on has %d (first difference at %d); %s", len(rest), len(stream)-off, firstDiff(rest, stream[off:]), what))
			return false
		}
	}
	return true
}

func richPrefix(l *core.Lane, n int) []byte {
	f := l.Sub()
	frags := [][]byte{[]byte("II*"), []byte("MM\x00"), []byte("IIII*"), []byte("MII*"), []byte("I"), []byte("M"), []byte("*\x00"), []byte("II\x00*"), []byte("MM*\x00"), []byte("IM"), []byte("MI*\x00"), []byte("II*\x01"), {0}, []byte("MMM\x00")}
	var b []byte
	for len(b) < n {
		switch f.Intn(3) {
		case 0:
			b = append(b, frags[f.Intn(len(frags))]...)
		case 1:
			b = append(b, f.Byte())
		default:
			b = append(b, sigAlphabet[f.Intn(len(sigAlphabet))])
		}
	}
	b = b[:n]
	// the prefix of the sampled campaign carries no complete signature: the header that follows
	// is the first one (prefixes with embedded signatures are the enumerated campaign's business)
	for {
		i, _, _, ok := refSearch(b)
		if !ok {
			break
		}
		b[i+2] = 'x'
	}
	return b
}

func init() {
	p := &Prop{
		ID:    "C12",
		Level: "exploration",
		Rule: "a run is non-trivial when the stream held a signature at an offset > 0 or none at all and the result was judged against the reference search; " +
			"distinct = distinct run digests (device counts and canonical header of every search in the run)",
		QuickSec: 25, ThoroughSec: 300,
		Assumptions: []string{
			"enumerated corpus: every prefix over {I, M, *, 0x00, x} up to length 7 (quick) / 10 (thorough), each followed by an II and an MM header and 28+ filler bytes; this part is corpus enumeration with a reference model, not schedule search",
			"sampled: signature-free prefixes up to 16 KiB rich in partial signatures, first-IFD offsets 8, 9..4096, 0, 2^32-1, rest >= 28 / exactly 28 / < 28 bytes (the last: returns, nothing else), streams without a signature, every delivery schedule and reader kind",
			"the stream position is judged only when the harness owns a bufio.Reader of at least 32 bytes; when the function wraps the reader itself the position is unobservable",
		},
	}
	p.Campaigns = []*Campaign{
		{
			Name: "enum-prefixes", Enumerated: true, Weight: 2,
			N: func(tier string, seed uint64) uint64 {
				return (prefixCount(c12MaxLen(tier)) + c12Batch - 1) / c12Batch
			},
			Run: func(c *Ctx) {
				total := prefixCount(c12MaxLen(c.Tier))
				lo := c.Run * c12Batch
				filler := bytes.Repeat([]byte{'x'}, 40)
				for idx := lo; idx < lo+c12Batch && idx < total; idx++ {
					pre := prefixByIndex(idx)
					for _, hdr := range [][]byte{[]byte("II*\x00\x08\x00\x00\x00"), []byte("MM\x00*\x00\x00\x01\x02")} {
						stream := append(append(append([]byte(nil), pre...), hdr...), filler...)
						if !c12Judge(c, stream, harness.RKBufio4096, Delivery{}, true, fmt.Sprintf("prefix=%q header=%q", pre, hdr[:4])) {
							c.Descf("prefix index %d: %q header %q", idx, pre, hdr)
							return
						}
						c.Inc("probe:enumerated-streams")
					}
				}
				c.NonTrivial = true
				c.Descf("prefixes %d..%d of %d (length <= %d), II and MM header each", lo, lo+c12Batch-1, total, c12MaxLen(c.Tier))
			},
		},
		{
			// a header behind 0..N bytes of filler that holds no I or M byte at all (the search may
			// then advance in its largest steps), N beyond the 4096-byte buffer refill
			Name: "enum-offsets", Enumerated: true, Weight: 1,
			N: func(tier string, seed uint64) uint64 {
				if tier == "thorough" {
					return 9000 / 50
				}
				return 4500 / 50
			},
			Run: func(c *Ctx) {
				for n := int(c.Run) * 50; n < int(c.Run)*50+50; n++ {
					for kind := 0; kind < 3; kind++ {
						pre := make([]byte, n)
						r := core.NewSplitMix(uint64(n)*3 + uint64(kind))
						for i := range pre {
							switch kind {
							case 0:
								pre[i] = 0xaa
							case 1:
								pre[i] = 0
							default:
								b := byte(r.Next())
								if b == 'I' || b == 'M' {
									b = 'x'
								}
								pre[i] = b
							}
						}
						for _, hdr := range [][]byte{[]byte("II*\x00\x08\x00\x00\x00"), []byte("MM\x00*\x00\x00\x01\x02")} {
							stream := append(append(append([]byte(nil), pre...), hdr...), bytes.Repeat([]byte{'x'}, 40)...)
							if !c12Judge(c, stream, harness.RKBufio4096, Delivery{}, true, fmt.Sprintf("filler kind %d of %d bytes, header=%q", kind, n, hdr[:4])) {
								return
							}
							c.Inc("probe:enumerated-streams")
						}
					}
				}
				c.NonTrivial = true
				c.Descf("header behind %d..%d filler bytes without I/M (0xAA, 0x00, random), II and MM", int(c.Run)*50, int(c.Run)*50+49)
			},
		},
		{
			Name: "sampled", Weight: 3,
			N: func(tier string, seed uint64) uint64 {
				if tier == "thorough" {
					return 10000000
				}
				return 150000
			},
			Run: func(c *Ctx) {
				g := c.L("gen")
				cfg := c.L("cfg")
				var n int
				switch g.Intn(4) {
				case 0:
					n = g.Intn(12)
				case 1:
					n = g.Intn(64)
				case 2:
					n = g.Intn(4200)
				default:
					n = g.Intn(16384)
				}
				pre := richPrefix(g, n)
				stream := append([]byte(nil), pre...)
				hasSig := !g.Chance(1, 8)
				strict := true
				if hasSig {
					big := g.Bool()
					first := []uint32{8, uint32(9 + g.Intn(4088)), 0, 0xffffffff, uint32(g.Intn(1 << 30))}[g.Intn(5)]
					var h [8]byte
					if big {
						copy(h[:], "MM\x00*")
						binary.BigEndian.PutUint32(h[4:], first)
					} else {
						copy(h[:], "II*\x00")
						binary.LittleEndian.PutUint32(h[4:], first)
					}
					stream = append(stream, h[:]...)
					var rest int
					switch g.Intn(4) {
					case 0:
						rest = 24 // exactly 28 bytes after the 4-byte signature
					case 1:
						rest = g.Intn(24)
						strict = false
					default:
						rest = 24 + g.Intn(3000)
					}
					tail := g.Sub().Bytes(rest)
					// the bytes after the header may hold further signatures; they are not the first
					stream = append(stream, tail...)
				} else {
					stream = append(stream, richPrefix(g, 40)...)
				}
				rk := cfg.Intn(harness.NumRK)
				d := drawDelivery(c.L("dev:0"))
				what := fmt.Sprintf("prefix len=%d signature=%v stream len=%d reader=%s delivery=%s", len(pre), hasSig, len(stream), harness.RKNames[rk], d)
				c.Descf("%s", what)
				if c.Describe && len(stream) <= 400 {
					c.Descf("hex=%x", stream)
				}
				if c12Judge(c, stream, rk, d, strict, what) && !c.PlanOnly {
					c.NonTrivial = strict && (len(pre) > 0 || !hasSig)
					c.Inc("entry:tiff.ScanTiffHeader")
					if !strict {
						c.Inc("probe:short-tail (returns only)")
					}
					if !hasSig {
						c.Inc("probe:no-signature-stream")
					}
				}
			},
		},
	}
	Register(p)
}
