package props

import (
	"bufio"
	"bytes"
	"encoding/binary"
	"fmt"
	"io"
	"strings"

	"github.com/evanoberholster/imagemeta"
	"github.com/evanoberholster/imagemeta/isobmff"
	"github.com/evanoberholster/imagemeta/meta"

	"verifsim/gen"
	"verifsim/harness"
	"verifsim/world"
)

// C11 — ISOBMFF box containment; CR3 payloads delivered whole (DESIGN §5 C11).
//
// The harness passes its own *bufio.Reader (>= 4096 bytes, so NewReader adopts it), which makes
// the logical stream position observable without a hook: pos = device offset − br.Buffered().
// The generator's containment table is the oracle; the simulator varies the callback actors,
// the call protocol, the delivery schedule and (malformed variant) one child's size field.

// site is one expected callback invocation.
type c11Site struct {
	kind    string // cmt1..cmt4 xmp prvw heif-exif
	payload []byte // bytes the handed reader must yield
	start   int    // absolute offset of payload[0]
	limits  []int  // ends of the enclosing well-formed boxes, innermost first
	hdr     string // expected header prefix
	ifd     string // expected directory type
}

var cmtIfdNames = [4]string{"Ifd", "Ifd/Exif", "Ifd/Exif/Makernote", "Ifd/GPS"}

func tiffHdr(b []byte) (bo string, first uint32) {
	if len(b) >= 8 && b[0] == 'M' {
		return "BigEndian", binary.BigEndian.Uint32(b[4:8])
	}
	if len(b) >= 8 {
		return "LittleEndian", binary.LittleEndian.Uint32(b[4:8])
	}
	return "?", 0
}

func c11Run(c *Ctx) {
	g := c.L("gen")
	cfg := c.L("cfg")
	big := g.Bool()
	var data []byte
	var top []gen.Span
	var exifSites, xmpSites, prevSites []c11Site
	var preview []byte
	prvwConsistent := true
	isCR3 := !g.Chance(1, 5)
	malformed, canonicalOrder := false, false
	var malDesc string
	if isCR3 {
		rec := gen.DrawRecord(g, 200)
		l1, l2, l4 := gen.BuildSplit(g, rec, gen.LayoutOpts{Foreign: 3})
		var o gen.CR3Opts
		o.CMT[0] = l1.Encode(big).Bytes
		if l2 != nil {
			o.CMT[1] = l2.Encode(big).Bytes
		}
		if l4 != nil {
			o.CMT[3] = l4.Encode(big).Bytes
		}
		if g.Bool() {
			mk := gen.DrawLayout(g, &gen.Dir{Name: "MkNote", Entries: []*gen.Entry{{ID: 1, Type: gen.TShort, Count: 1, Shorts: []uint16{uint16(g.Intn(9))}}, {ID: 2, Type: gen.TLong, Count: 1, Longs: []uint32{uint32(g.Intn(99))}}}}, gen.LayoutOpts{Canonical: true})
			o.CMT[2] = mk.Encode(big).Bytes
		}
		if g.Chance(3, 4) {
			o.XMP = xmpPacket(g)
		}
		if g.Chance(3, 4) {
			o.Preview = append([]byte{0xff, 0xd8, 0xff, 0xdb}, g.Sub().Bytes(g.Intn(12000))...)
		}
		o.Surround, o.Use64, o.TopExtra = g.Bool(), g.Bool(), g.Bool()
		o.Tail = g.Intn(3)
		o.Brands = c.L("gen:x").Intn(13) // ftyp with up to 12 further compatible brands
		o.BrandsNoMajor = c.L("gen:y").Chance(1, 3)
		if y := c.L("gen:y"); y.Chance(1, 3) {
			o.Top64 = 1 + y.Intn(7) // moov / xpacket / preview boxes with 64-bit sizes
		}
		if w := c.L("gen:w"); w.Chance(1, 8) {
			o.Brands = 1000 + w.Intn(400) // a ftyp box around and beyond the 4 KiB the library buffers
			c.Inc("probe:ftyp-beyond-4KiB")
		}
		if w := c.L("gen:w"); w.Chance(1, 4) {
			o.Top64 |= 8 // the PRVW box itself carries a 64-bit size
		}
		if w := c.L("gen:w"); w.Chance(1, 10) {
			o.LeadFree = 1 + w.Intn(40) // a box that is no ftyp box in front of everything
		}
		if w := c.L("gen:w"); l4 == nil && w.Chance(1, 4) {
			// a GPS directory without entries: a Tiff header, a zero count and a zero link (14 bytes)
			o.CMT[3] = []byte("II*\x00\x08\x00\x00\x00\x00\x00\x00\x00\x00\x00")
			if big {
				o.CMT[3] = []byte("MM\x00*\x00\x00\x00\x08\x00\x00\x00\x00\x00\x00")
			}
		}
		if y := c.L("gen:y"); y.Chance(1, 4) {
			o.CTBO = 1 + y.Intn(15) // five to seven CTBO records, count field up to three beyond them
		}
		if y := c.L("gen:y"); o.Preview != nil && y.Chance(1, 4) {
			// the PRVW header's jpeg-size field disagrees with what the box holds: the payload is
			// what the box holds
			o.PrvwField = []int{40, 1, -1, -20, 64, 100000}[y.Intn(6)]
			if len(o.Preview)+o.PrvwField < 0 {
				o.PrvwField = 1
			}
			c.Inc("probe:prvw-size-field-differs-from-box")
		}
		cr := gen.DrawCR3(g, o)
		data, top, preview = cr.Bytes, cr.Top, o.Preview
		prvwConsistent = o.PrvwField == 0
		// PreviewCR3 walks the layout cameras write: ftyp, moov, xpacket uuid, preview uuid
		// PreviewCR3 reads three top-level boxes behind ftyp (moov, xpacket, preview as cameras
		// write them) and, if the preview has not turned up, up to eight: it is compared with the
		// generator when the preview box is among those (a file that ends with it included)
		canonicalOrder = false
		for i, t := range cr.Top {
			if t.Type == "uuid-prvw" && i >= 1 && i <= 8 {
				canonicalOrder = true
			}
		}
		if o.LeadFree > 0 {
			canonicalOrder = false // (the entry points refuse a file that does not begin with ftyp)
		}
		for i := 0; i < 4; i++ {
			if o.CMT[i] == nil {
				continue
			}
			bo, first := tiffHdr(o.CMT[i])
			exifSites = append(exifSites, c11Site{kind: fmt.Sprintf("cmt%d", i+1), payload: o.CMT[i][8:], start: cr.CMTOff[i] + 8,
				limits: []int{cr.CMTBox[i].End, cr.Canon.End, cr.Moov.End},
				hdr:    fmt.Sprintf("bo=%s first=%d tiff=0 len=%d ", bo, first, len(o.CMT[i])), ifd: cmtIfdNames[i]})
		}
		if o.XMP != nil {
			xmpSites = append(xmpSites, c11Site{kind: "xmp", payload: o.XMP, start: cr.XMPOff, limits: []int{cr.XMPBox.End}})
		}
		if o.Preview != nil {
			prevSites = append(prevSites, c11Site{kind: "prvw", payload: o.Preview, start: cr.PrevOff, limits: []int{cr.PRVW.End, cr.PrevUUID.End},
				hdr: fmt.Sprintf("size=%d w=%d h=%d", len(o.Preview)+o.PrvwField, cr.PrevW, cr.PrevH)})
		}
		// malformed variant: one child overstates its size (its parent's bound must hold)
		if cfg.Chance(1, 4) {
			type cand struct {
				name string
				off  int
				over []int // ends that must still bound every read
			}
			var cands []cand
			for i := 0; i < 4; i++ {
				if o.CMT[i] != nil && cr.CMTBox[i].End-cr.CMTBox[i].Start == len(o.CMT[i])+8 {
					cands = append(cands, cand{fmt.Sprintf("CMT%d", i+1), cr.CMTBox[i].Start, []int{cr.Canon.End, cr.Moov.End}})
				}
			}
			cands = append(cands, cand{"uuid-canon", cr.Canon.Start, []int{cr.Moov.End}})
			if cr.MoovFirst.End > 0 {
				// an uninterpreted direct child of moov (the container cannot close it)
				cands = append(cands, cand{"moov-child", cr.MoovFirst.Start, []int{cr.Moov.End}}, cand{"moov-child", cr.MoovFirst.Start, []int{cr.Moov.End}})
			}
			if o.Preview != nil {
				cands = append(cands, cand{"PRVW", cr.PRVW.Start, []int{cr.PrevUUID.End}})
			}
			k := cands[cfg.Intn(len(cands))]
			cur := binary.BigEndian.Uint32(data[k.off:])
			add := uint32(1 + cfg.Intn(64))
			if cfg.Chance(1, 4) {
				add = uint32(len(data)) // far beyond the file
			}
			data = append([]byte(nil), data...)
			binary.BigEndian.PutUint32(data[k.off:], cur+add)
			malformed = true
			malDesc = fmt.Sprintf("child %s at %d overstates its size by %d", k.name, k.off, add)
			// the overstated box no longer bounds anything; its well-formed ancestors do
			fix := func(ss []c11Site) {
				for i := range ss {
					var keep []int
					for _, l := range ss[i].limits {
						for _, ov := range k.over {
							if l == ov {
								keep = append(keep, l)
							}
						}
					}
					if strings.HasPrefix(k.name, "CMT") || k.name == "uuid-canon" {
						if strings.HasPrefix(ss[i].kind, "cmt") {
							ss[i].limits = keep
						}
					}
					if k.name == "PRVW" && ss[i].kind == "prvw" {
						ss[i].limits = keep
					}
				}
			}
			fix(exifSites)
			fix(prevSites)
		}
	} else {
		rec := gen.DrawRecord(g, 200)
		ly := gen.BuildTIFF(g, rec, gen.LayoutOpts{Foreign: 3})
		tiff := ly.Encode(big).Bytes
		x := c.L("gen:x")
		h := gen.DrawHEIFOpts(g, tiff, g.Bool(), gen.HEIFOpts{ExtraIloc: x.Intn(3), Brands: x.Intn(13), InfeVariants: x.Intn(4), InfeVersions: infeVersions(c.L("gen:y")), Iref: c.L("gen:y").Bool(), ItemFirst: c.L("gen:y").Chance(1, 3), Mdat64: c.L("gen:y").Chance(1, 3), IinfFirst: c.L("gen:y").Bool(),
			BaseOffset: c.L("gen:w").Chance(1, 3), SecondMdat: c.L("gen:w").Chance(1, 3), MultiExtent: c.L("gen:w").Chance(1, 3),
			ManyItems: []int{0, 0, 0, 1, 7, 60, 200, 260}[c.L("gen:w").Intn(8)], TiffHdrOff: []int{0, 0, 0, 1, 3, 9}[c.L("gen:w").Intn(6)]})
		data, top = h.Bytes, h.Top
		bo, first := tiffHdr(tiff)
		mdatEnd := 0
		for _, t := range top {
			if t.Type == "mdat" {
				mdatEnd = t.End
			}
		}
		exifSites = append(exifSites, c11Site{kind: "heif-exif", payload: tiff[8:], start: h.TIFFOff + 8, limits: []int{h.TIFFOff + len(tiff), mdatEnd},
			hdr: fmt.Sprintf("bo=%s first=%d tiff=0 len=%d ", bo, first, len(tiff)), ifd: "Ifd"})
	}

	exifSpec, xmpSpec, prevSpec := drawActorSpec(c.L("act:exif")), drawActorSpec(c.L("act:xmp")), drawActorSpec(c.L("act:prev"))
	exifSpec.RetErr, xmpSpec.RetErr, prevSpec.RetErr = false, false, false
	nilCB := cfg.Chance(1, 8)
	d := drawDelivery(c.L("dev:0"))
	brSize := []int{4096, 8192, 65536}[cfg.Intn(3)]
	var kinds []string
	for _, t := range top {
		kinds = append(kinds, fmt.Sprintf("%s[%d,%d)", t.Type, t.Start, t.End))
	}
	c.Descf("file len=%d cr3=%v top=%s", len(data), isCR3, strings.Join(kinds, " "))
	c.Descf("actors exif=%s xmp=%s prev=%s nilcb=%v bufio=%d delivery=%s malformed=%v %s", exifSpec, xmpSpec, prevSpec, nilCB, brSize, d, malformed, malDesc)
	if c.Describe && len(data) <= 1200 {
		c.Descf("hex=%x", data)
	}
	if c.PlanOnly {
		c.PlanEntry = "isobmff.Reader"
		return
	}
	harness.LogDefault()
	harness.Pristine()
	c.Dev.Budget = c08Budget(len(data))
	r := newReader(c.Dev, data, Fault{}, d)
	br := bufio.NewReaderSize(r, brSize)
	pos := func() int { return int(r.Pos()) - br.Buffered() }
	const entry = "isobmff.Reader"
	fail := func(kind, site, detail string) { c.Fail(kind, entry, site, detail) }

	mkProbe := func(a *world.Actor, sites []c11Site) {
		a.Probe = func(phase string, inv int) {
			if inv >= len(sites) {
				return
			}
			s := sites[inv]
			p := pos()
			if phase == "enter" {
				if !malformed && p != s.start {
					fail("position", s.kind+"-enter", fmt.Sprintf("callback for %s entered at stream position %d, its payload starts at %d", s.kind, p, s.start))
				}
				return
			}
			for _, lim := range s.limits {
				if p > lim {
					fail("position", s.kind+"-escape", fmt.Sprintf("after the %s callback the stream stands at %d, beyond the end %d of an enclosing box (%s)", s.kind, p, lim, malDesc))
					return
				}
			}
		}
	}
	exifA, xmpA, prevA := exifSpec.New(c.Dev, "exif"), xmpSpec.New(c.Dev, "xmp"), prevSpec.New(c.Dev, "prev")
	if x := c.L("act:x"); x.Chance(1, 6) {
		// a callback that steps back with a negative Discard before it leaves (what the library's own
		// Exif reader does for overlapping values)
		k := 1 + x.Intn(64)
		[]*world.Actor{exifA, xmpA, prevA}[x.Intn(3)].NegDiscard = k
		c.Inc("fault:callback-negative-discard:configured")
	}
	mkProbe(exifA, exifSites)
	mkProbe(xmpA, xmpSites)
	mkProbe(prevA, prevSites)

	var steps []string
	var pi *harness.PanicInfo
	pi = harness.Guard(func() {
		bmr := isobmff.NewReader(br)
		defer bmr.Close()
		if !nilCB {
			bmr.ExifReader = func(rd io.Reader, h meta.ExifHeader) error {
				return exifA.Run(rd, fmt.Sprintf("bo=%s first=%d tiff=%d len=%d ifd=%s", h.ByteOrder, h.FirstIfdOffset, h.TiffHeaderOffset, h.ExifLength, h.FirstIfd), -1)
			}
			bmr.XMPReader = func(rd io.Reader) error { return xmpA.Run(rd, "", -1) }
			bmr.PreviewImageReader = func(rd io.Reader, h meta.PreviewHeader) error {
				return prevA.Run(rd, fmt.Sprintf("size=%d w=%d h=%d", h.Size, h.Width, h.Height), int(h.Size))
			}
		}
		if len(top) > 0 && top[0].Type == "lead" {
			// the first box is no ftyp box: ReadFTYP says so, and has processed that box
			err := bmr.ReadFTYP()
			steps = append(steps, harness.CanonErr(err))
			if err == nil {
				fail("position", "lead", "ReadFTYP accepted a free box as the ftyp box")
				return
			}
			if p := pos(); p != top[0].End {
				fail("position", "after-lead", fmt.Sprintf("after ReadFTYP (%v) on a %d-byte free box the stream stands at %d, the next top-level box begins at %d", err, top[0].End, p, top[0].End))
				return
			}
			top = top[1:]
		}
		err := bmr.ReadFTYP()
		steps = append(steps, harness.CanonErr(err))
		if err != nil {
			fail("position", "ftyp", "ReadFTYP failed on a well-formed ftyp box: "+err.Error())
			return
		}
		if p := pos(); p != top[0].End {
			fail("position", "after-ftyp", fmt.Sprintf("after ReadFTYP the stream stands at %d, the ftyp box ends at %d", p, top[0].End))
			return
		}
		// One call processes the next top-level box. Boxes that are not interpreted (free, skip,
		// vendor boxes) may be skipped one per call or together with the call that reaches the next
		// interpreted box (moov, meta, mdat, a uuid box) - the property fixes neither; what it fixes
		// is that the stream then stands at a top-level boundary, never beyond the first interpreted
		// box it had in front of it.
		interp := func(t string) bool { return t != "extra" && t != "free" }
		for i := 1; i < len(top); {
			err = bmr.ReadMetadata()
			steps = append(steps, harness.CanonErr(err))
			p := pos()
			lim := i
			for lim < len(top)-1 && !interp(top[lim].Type) {
				lim++
			}
			if p > top[lim].End {
				fail("position", "escape-"+top[lim].Type, fmt.Sprintf("ReadMetadata on top-level box %s [%d,%d) left the stream at %d, beyond the box (err=%v; %s)", top[lim].Type, top[lim].Start, top[lim].End, p, err, malDesc))
				return
			}
			j := -1
			for k := i; k <= lim; k++ {
				if top[k].End == p {
					j = k
				}
			}
			if err == nil && j < 0 && !malformed {
				fail("position", "after-"+top[lim].Type, fmt.Sprintf("ReadMetadata returned nil with top-level box %s [%d,%d) next to process but the stream stands at %d, not at a top-level boundary up to the end of that box", top[lim].Type, top[lim].Start, top[lim].End, p))
				return
			}
			if err != nil && !malformed {
				rest := false
				for k := i; k < len(top); k++ {
					rest = rest || interp(top[k].Type)
				}
				if rest || j < 0 {
					fail("position", "error-"+top[lim].Type, fmt.Sprintf("ReadMetadata failed with well-formed top-level box %s [%d,%d) next to process: %v", top[lim].Type, top[lim].Start, top[lim].End, err))
				}
				return // nothing interpretable was left: the end of the stream was reached while skipping
			}
			if j < 0 {
				// the child that overstates its size lies inside a top-level box whose own size is
				// well-formed: "whatever sizes its children declare ... after a top-level box is
				// processed the reader stands exactly at the next top-level box"
				fail("position", "after-malformed-"+top[lim].Type, fmt.Sprintf("ReadMetadata (err=%v) on top-level box %s [%d,%d) left the stream at %d, inside the box (%s)", err, top[lim].Type, top[lim].Start, top[lim].End, p, malDesc))
				return
			}
			i = j + 1
		}
	})
	c.D.Str(strings.Join(steps, ";"))
	c.D.Int(int(r.Calls))
	c.Inc("entry:" + entry)
	if malformed {
		c.Inc("probe:malformed-child-overstates-size")
	}
	if pi != nil {
		if pi.Class == "budget" {
			fail("position", "no-return", "reading a box tree exceeded the device tick budget")
		} else {
			c.Inc("probe:panic-seen-(C01's subject)")
		}
		return
	}
	if c.Viol != nil {
		return
	}
	// payload clause
	check := func(a *world.Actor, sites []c11Site) bool {
		if nilCB {
			return true
		}
		if !isCR3 {
			// the property's payload clause names the CR3 boxes only; whether the HEIF Exif item is
			// handed over depends on the order of iinf and iloc, which the property does not fix
			if len(a.Inv) > 0 {
				c.NonTrivial = true
				c.Inc("probe:heif-exif-callback-seen (containment only)")
			}
			return true
		}
		if !malformed && len(a.Inv) != len(sites) {
			fail("payload", a.Name+"-invocations", fmt.Sprintf("%s callback invoked %d times, the tree holds %d such payloads", a.Name, len(a.Inv), len(sites)))
			return false
		}
		for i, inv := range a.Inv {
			if i >= len(sites) {
				break
			}
			s := sites[i]
			c.D.Bytes(inv.Got)
			c.NonTrivial = true
			if malformed {
				continue // only containment is promised
			}
			if s.hdr != "" && !strings.HasPrefix(inv.Header, s.hdr) {
				fail("payload", s.kind+"-header", fmt.Sprintf("%s callback header %q, the generator's table says %q", s.kind, inv.Header, s.hdr))
				return false
			}
			if s.ifd != "" && !strings.HasSuffix(inv.Header, "ifd="+s.ifd) {
				fail("payload", s.kind+"-ifd", fmt.Sprintf("%s callback header %q, the directory type must be %s", s.kind, inv.Header, s.ifd))
				return false
			}
			if !bytes.HasPrefix(s.payload, inv.Got) {
				fail("payload", s.kind+"-bytes", fmt.Sprintf("%s callback obtained %d bytes that are not a prefix of the %d-byte payload (first difference at %d)", s.kind, len(inv.Got), len(s.payload), firstDiff(s.payload, inv.Got)))
				return false
			}
			toEnd := a.Mode == world.ActToEOF || a.Mode == world.ActOver || (a.Mode == world.ActExact && inv.Declared < 0) || (a.Mode == world.ActExact && inv.Declared == len(s.payload))
			if toEnd && len(inv.Got) != len(s.payload) {
				fail("payload", s.kind+"-length", fmt.Sprintf("%s callback read to the end and obtained %d bytes, the payload has %d (err=%q, mode=%d peek=%v)", s.kind, len(inv.Got), len(s.payload), inv.Err, a.Mode, a.UsePeek))
				return false
			}
			if len(inv.Extra) > 0 {
				fail("payload", s.kind+"-overread", fmt.Sprintf("%s callback obtained %d bytes beyond its payload", s.kind, len(inv.Extra)))
				return false
			}
			c.Inc("probe:" + s.kind + "-callback-checked")
		}
		return true
	}
	if !check(exifA, exifSites) || !check(xmpA, xmpSites) || !check(prevA, prevSites) {
		return
	}
	// the convenience entry point must deliver the same preview (shared with C06)
	if isCR3 && !malformed && preview != nil && canonicalOrder && prvwConsistent && cfg.Chance(1, 4) {
		harness.Pristine()
		r2 := newReader(c.Dev, data, Fault{}, Delivery{})
		var b []byte
		var err error
		if p2 := harness.Guard(func() { b, err = imagemeta.PreviewCR3(r2) }); p2 == nil {
			if err != nil || !bytes.Equal(b, preview) {
				fail("payload", "PreviewCR3", fmt.Sprintf("PreviewCR3 returned %d bytes (err=%v), the PRVW box holds a %d-byte preview", len(b), err, len(preview)))
			}
			c.Inc("probe:PreviewCR3-compared")
		}
	}
	c.Descf("steps=%s exif-callbacks=%d xmp-callbacks=%d preview-callbacks=%d", strings.Join(steps, ";"), len(exifA.Inv), len(xmpA.Inv), len(prevA.Inv))
}

func init() {
	p := &Prop{
		ID:    "C11",
		Level: "exploration",
		Rule: "a run is non-trivial when at least one callback actor was invoked on a box payload and judged against the containment table; " +
			"distinct = distinct run digests (per-step errors, device call count, bytes every actor obtained)",
		QuickSec: 40, ThoroughSec: 480,
		Assumptions: []string{
			"trees: CR3 (ftyp, moov{uuid-Canon{CNCV CCTP CTBO CMT1..4 THMB unknown} mvhd trak* unknown}, uuid-xpacket, uuid-preview{PRVW}, mdat in three positions, unknown/free boxes between any two top-level boxes, 32- and 64-bit headers) and HEIF (ftyp, meta{hdlr pitm iloc iinf iprp unknown}, free, mdat with the Exif item)",
			"malformed variant: one child (CMTn, the Canon uuid, PRVW) overstates its size by 1..64 bytes or beyond the file; then only containment is judged",
			"the harness owns the bufio.Reader (>= 4096, adopted by NewReader): stream position = device offset - Buffered()",
			"callbacks return nil (a callback error legitimately aborts the box)",
		},
	}
	p.Campaigns = []*Campaign{{
		Name: "trees", Weight: 1,
		N: func(tier string, seed uint64) uint64 {
			if tier == "thorough" {
				return 30000000
			}
			return 150000
		},
		Run: c11Run,
	}}
	Register(p)
}
