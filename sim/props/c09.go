package props

import (
	"bytes"
	"fmt"
	"io"
	"strings"

	"github.com/evanoberholster/imagemeta/imagetype"

	"verifsim/core"
	"verifsim/gen"
	"verifsim/harness"
)

// C09 — image-type sniffing is a total, prefix-only, signature-correct classification
// (DESIGN §5 C09). S clauses: the four entry points read through four different seams and must
// agree under every delivery schedule; the peeking ones must not consume the stream; below 24
// bytes every one returns an error and no type. G clauses: an independently written signature
// table (gen/sniff.go); canonical headers and their 24x256 single-byte perturbations are a fixed
// corpus with a reference model, labelled as such.

var sniffNames = map[imagetype.ImageType]string{
	imagetype.ImageUnknown: gen.FUnknown, imagetype.ImageJPEG: gen.FJPEG, imagetype.ImagePNG: gen.FPNG, imagetype.ImageGIF: gen.FGIF,
	imagetype.ImageBMP: gen.FBMP, imagetype.ImageWebP: gen.FWebP, imagetype.ImageHEIF: gen.FHEIF, imagetype.ImageTiff: gen.FTIFF,
	imagetype.ImagePanaRAW: gen.FRW2, imagetype.ImageCRW: gen.FCRW, imagetype.ImageCR3: gen.FCR3, imagetype.ImageCR2: gen.FCR2,
	imagetype.ImagePSD: gen.FPSD, imagetype.ImageXMP: gen.FXMP, imagetype.ImageAVIF: gen.FAVIF, imagetype.ImagePPM: gen.FPPM,
}

func sniffName(t imagetype.ImageType) string {
	if n, ok := sniffNames[t]; ok {
		return n
	}
	return fmt.Sprintf("type#%d", uint8(t))
}

var sniffEntries = []string{"imagetype.Buf", "imagetype.Scan", "imagetype.ScanBuf", "imagetype.ReadAt"}

// sniffAll classifies stream through the four entry points; returns type names, error texts.
func sniffAll(c *Ctx, stream []byte, rk int, d Delivery) (types, errs []string, panicked string, results []*harness.Result) {
	return sniffAllAt(c, nil, false, stream, rk, d)
}

// sniffAllAt: the stream-consuming entry points (Scan, ScanBuf) receive a reader of
// before++stream from which the caller has already taken the bytes of before (by reading, or by
// seeking): their stream is what follows.
func sniffAllAt(c *Ctx, before []byte, seek bool, stream []byte, rk int, d Delivery) (types, errs []string, panicked string, results []*harness.Result) {
	for _, en := range sniffEntries {
		e := harness.EntryByName(en)
		c.Dev.Budget = c.Dev.Seq + 1<<20
		dd := d
		if en == "imagetype.Buf" {
			dd = Delivery{}
		}
		if en == "imagetype.ReadAt" {
			// random access has no pieces, but a ReaderAt may report io.EOF together with the last bytes
			dd = Delivery{DataEOF: d.DataEOF}
		}
		content := stream
		env := &harness.Env{RK: rk}
		if len(before) > 0 && (en == "imagetype.Scan" || en == "imagetype.ScanBuf") {
			content = append(append([]byte(nil), before...), stream...)
			env.Prepos, env.PreposSeek = len(before), seek
		}
		r := newReader(c.Dev, content, Fault{}, dd)
		res := invoke(c, e, env, r)
		results = append(results, res)
		if res.Panic != nil {
			return nil, nil, en + ": " + res.Panic.Value, results
		}
		types = append(types, sniffName(res.Type))
		errs = append(errs, res.Err)
	}
	return
}

func inSet(s []string, x string) bool {
	for _, y := range s {
		if y == x {
			return true
		}
	}
	return false
}

// judgeHeader applies the table to one classification of a >= 24 byte stream.
func judgeHeader(c *Ctx, entry string, h []byte, got, err string, what string) bool {
	acc := gen.Acceptable(h[:24])
	if got == gen.FUnknown {
		if !strings.Contains(err, "imagetype.ErrImageTypeNotFound") {
			c.Fail("mismatch", entry, "unknown-without-notfound", fmt.Sprintf("type unknown but the error is %q, not 'not found'; %s", err, what))
			return false
		}
		if len(acc) > 0 && !(h[4] == 'f' && (h[0] != 0 || h[1] != 0)) {
			// (a ftyp box of 64 KiB or more is no standard header: the table, written for the
			// "only if" direction, does not look at the size field)
			// "all 24-byte headers h carrying F's signature: type(h++s)==F"
			c.Fail("mismatch", entry, "if:"+acc[0], fmt.Sprintf("header carries the signature of %v but is classified as unknown; %s", acc, what))
			return false
		}
		return true
	}
	if err != "<nil>" {
		c.Fail("mismatch", entry, "type-with-error", fmt.Sprintf("type %s reported together with error %q; %s", got, err, what))
		return false
	}
	if !inSet(acc, got) {
		c.Fail("mismatch", entry, "only-if:"+got, fmt.Sprintf("header classified as %s, but it does not carry that format's signature (the table allows %v); %s", got, acc, what))
		return false
	}
	return true
}

func init() {
	p := &Prop{
		ID:    "C09",
		Level: "exploration",
		Rule: "a run is non-trivial when at least one entry point returned a known type or the stream was shorter than 24 bytes, and all clauses were judged; " +
			"distinct = distinct run digests (entry points, device counts, canonical results)",
		QuickSec: 25, ThoroughSec: 200,
		Assumptions: []string{
			"signature table written from the formats' published magic numbers (gen/sniff.go); JPEG 2000's signature box counts as JPEG because the library's own test suite pins that answer",
			"'only if' is judged as: the reported type's signature is carried by the first 24 bytes and is not ruled out by the documented precedence (CR2, RW2 over TIFF; CR3, AVIF, HEIF by brand); the longer signature wins over the four TIFF bytes (CR2, RW2, CRW); AVIF and HEIF are not ranked against each other",
			"canonical headers and their 24x256 single-byte perturbations are a fixed corpus with a reference model (corpus enumeration, not schedule search); random headers, suffixes, deliveries, reader kinds and short streams are sampled by seed",
			"non-consumption is observable only through a harness-owned bufio.Reader of at least 24 bytes",
		},
	}
	type canon struct {
		f string
		h []byte
	}
	var canons []canon
	for _, f := range gen.AllFormats {
		for _, h := range gen.Canonical(f) {
			canons = append(canons, canon{f, h})
		}
	}
	p.Campaigns = []*Campaign{
		{
			// canonical header ++ suffix => F through all four entry points; every single-byte
			// perturbation (position = run%24, 256 values) through Buf
			Name: "enum-canonical", Enumerated: true, Weight: 2,
			N: func(tier string, seed uint64) uint64 { return uint64(len(canons) * 24) },
			Run: func(c *Ctx) {
				cn := canons[int(c.Run)/24]
				pos := int(c.Run) % 24
				suffix := core.NewSplitMix(c.Run + 1)
				stream := append([]byte(nil), cn.h...)
				for i := 0; i < 100+int(c.Run%300); i++ {
					stream = append(stream, byte(suffix.Next()))
				}
				c.Descf("format=%s canonical header=%x perturbed position=%d", cn.f, cn.h, pos)
				types, errs, pan, _ := sniffAll(c, stream, harness.RKBufio4096, Delivery{})
				if c.PlanOnly {
					return
				}
				if pan != "" {
					c.Fail("mismatch", "imagetype", "panic", pan)
					return
				}
				for i, t := range types {
					if t != cn.f || errs[i] != "<nil>" {
						c.Fail("mismatch", sniffEntries[i], "if:"+cn.f, fmt.Sprintf("canonical %s header %x classified as %s (err %s)", cn.f, cn.h, t, errs[i]))
						return
					}
				}
				e := harness.EntryByName("imagetype.Buf")
				for v := 0; v < 256; v++ {
					h := append([]byte(nil), cn.h...)
					h[pos] = byte(v)
					r := newReader(c.Dev, h, Fault{}, Delivery{})
					res := invoke(c, e, &harness.Env{}, r)
					if res.Panic != nil {
						c.Fail("mismatch", e.Name, "panic", res.Panic.Value)
						return
					}
					if !judgeHeader(c, e.Name, h, sniffName(res.Type), res.Err, fmt.Sprintf("canonical %s header with byte %d set to %#02x: %x", cn.f, pos, v, h)) {
						return
					}
					c.Inc("probe:perturbations-judged")
				}
				c.NonTrivial = true
			},
		},
		{
			Name: "sampled", Weight: 3,
			N: func(tier string, seed uint64) uint64 {
				if tier == "thorough" {
					return 40000000
				}
				return 150000
			},
			Run: func(c *Ctx) {
				g := c.L("gen")
				cfg := c.L("cfg")
				var stream []byte
				switch g.Intn(4) {
				case 0: // canonical header, a few random bytes changed
					cn := canons[g.Intn(len(canons))]
					stream = append(stream, cn.h...)
					for k := g.Intn(3); k > 0; k-- {
						stream[g.Intn(24)] = byte(g.Intn(256))
					}
				case 1: // splice of two canonical headers
					a, b := canons[g.Intn(len(canons))].h, canons[g.Intn(len(canons))].h
					cut := g.Intn(25)
					stream = append(append(stream, a[:cut]...), b[cut:]...)
				case 2: // fragments
					frags := []string{"II*\x00", "MM\x00*", "II", "\xff\xd8", "\xff\xd8\xff", "ftyp", "crx ", "heic", "mif1", "avif", "heix", "msf1", "hevc", "CR\x02\x00", "HEAPCCDR", "\x89PNG", "\r\n\x1a\n", "RIFF", "WEBP", "GIF8", "9a", "7a", "BM", "8BPS", "<x:xmpmeta", "P6\n", "P3 ", "IIU\x00", "\x88\xe7\x74\xd8", "\x00\x00", "\x00\x00\x00\x0cjP  \r\n\x87\n"}
					for len(stream) < 24 {
						if g.Bool() {
							stream = append(stream, frags[g.Intn(len(frags))]...)
						} else {
							stream = append(stream, byte(g.Intn(256)))
						}
					}
					stream = stream[:24]
				default:
					stream = g.Sub().Bytes(24)
				}
				if x := c.L("gen:x"); x.Chance(1, 6) {
					// ftyp headers with a generic major brand and a random list of compatible brands
					brands := []string{"mif1", "msf1", "miaf", "heic", "heix", "hevc", "avif", "crx ", "isom", "MiHB"}
					stream = append([]byte{0, 0, 0, byte(16 + 4*x.Intn(6))}, "ftyp"...)
					stream = append(stream, brands[x.Intn(2)]...)
					stream = append(stream, 0, 0, 0, 0)
					for len(stream) < 24 {
						stream = append(stream, brands[x.Intn(len(brands))]...)
					}
				}
				if x := c.L("gen:y"); x.Chance(1, 4) {
					var d string
					stream, d = gen.Recombine(x)
					c.Descf("%s", d)
					c.Inc("probe:recombined-header")
				}
				short := g.Chance(1, 6)
				if short {
					stream = stream[:g.Intn(24)]
				} else {
					// the bytes right after the 24-byte window sometimes continue with brand and magic
					// fragments (a longer ftyp brand list, a second header): they must not matter
					if x := c.L("gen:x"); x.Chance(1, 3) {
						after := []string{"heic", "avif", "mif1", "miaf", "crx ", "heix", "hevc", "msf1", "II*\x00", "CR\x02\x00", "\x89PNG\r\n\x1a\n", "WEBP", "ftyp"}
						for k := 1 + x.Intn(3); k > 0; k-- {
							stream = append(stream, after[x.Intn(len(after))]...)
						}
					}
					stream = append(stream, g.Sub().Bytes(g.Intn(9000))...)
					if c.L("gen:y").Chance(1, 8) {
						stream = stream[:24] // exactly the window: the last byte needed is the last byte there is
						c.Inc("probe:stream-of-exactly-24-bytes")
					}
				}
				rk := cfg.Intn(harness.NumRK)
				d := drawDelivery(c.L("dev:0"))
				// the stream may be the rest of a larger one: the caller has read (or skipped with
				// Seek) what comes before - another image's header, or bytes up to a buffer edge
				var before []byte
				seek := false
				if x := c.L("cfg:x"); x.Chance(1, 4) {
					cn := canons[x.Intn(len(canons))]
					before = append(before, cn.h...)
					switch x.Intn(3) {
					case 1:
						before = append(before, x.Sub().Bytes(x.Intn(40))...)
					case 2:
						before = append(before, x.Sub().Bytes(4096-48+x.Intn(64))...)
					}
					seek = x.Bool() && !d.DataEOF
					c.Inc("probe:pre-positioned-stream")
				}
				what := fmt.Sprintf("stream len=%d header=%x reader=%s delivery=%s before=%d seek=%v", len(stream), stream[:minInt(24, len(stream))], harness.RKNames[rk], d, len(before), seek)
				c.Descf("%s", what)
				types, errs, pan, results := sniffAllAt(c, before, seek, stream, rk, d)
				if c.PlanOnly {
					return
				}
				if pan != "" {
					c.Fail("mismatch", "imagetype", "panic", pan+"; "+what)
					return
				}
				for _, en := range sniffEntries {
					c.Inc("entry:" + en)
				}
				if short {
					c.Inc("probe:short-stream")
					for i, t := range types {
						if t != gen.FUnknown || errs[i] == "<nil>" {
							c.Fail("mismatch", sniffEntries[i], "short-stream", fmt.Sprintf("stream of %d bytes: type %s, error %s (want no type and an error); %s", len(stream), t, errs[i], what))
							return
						}
					}
					c.NonTrivial = true
					return
				}
				// agreement of the four entry points (and of Buf on the 24-byte prefix)
				e := harness.EntryByName("imagetype.Buf")
				r := newReader(c.Dev, stream[:24], Fault{}, Delivery{})
				pre := invoke(c, e, &harness.Env{}, r)
				if pre.Panic != nil {
					c.Fail("mismatch", e.Name, "panic", pre.Panic.Value)
					return
				}
				if sniffName(pre.Type) != types[0] || pre.Err != errs[0] {
					c.Fail("mismatch", e.Name, "prefix-only", fmt.Sprintf("Buf(b)=%s/%s but Buf(b[:24])=%s/%s; %s", types[0], errs[0], sniffName(pre.Type), pre.Err, what))
					return
				}
				for i := 1; i < len(types); i++ {
					if types[i] != types[0] || errs[i] != errs[0] {
						c.Fail("mismatch", sniffEntries[i], "entry-points-disagree", fmt.Sprintf("%s=%s/%s but %s=%s/%s; %s", sniffEntries[0], types[0], errs[0], sniffEntries[i], types[i], errs[i], what))
						return
					}
				}
				if !judgeHeader(c, "imagetype.Buf", stream, types[0], errs[0], what) {
					return
				}
				// non-consumption: the harness-owned bufio.Reader still yields the stream from byte 0
				for i, en := range sniffEntries {
					if (en == "imagetype.Scan" || en == "imagetype.ScanBuf") && results[i].Br != nil && results[i].Br.Size() >= 24 {
						rest, _ := io.ReadAll(results[i].Br)
						c.Inc("probe:non-consumption-checked")
						if !bytes.Equal(rest, stream) {
							c.Fail("consumed", en, "stream-consumed", fmt.Sprintf("after %s the reader yields %d of %d bytes (first difference at %d); %s", en, len(rest), len(stream), firstDiff(rest, stream), what))
							return
						}
					}
				}
				if types[0] != gen.FUnknown {
					c.NonTrivial = true
					c.Inc("probe:known-type:" + types[0])
				}
			},
		},
	}
	Register(p)
}

func minInt(a, b int) int {
	if a < b {
		return a
	}
	return b
}
