package props

import (
	"fmt"

	"verifsim/core"
	"verifsim/harness"
	"verifsim/world"
)

// C04 — a result depends only on the bytes of that call (DESIGN §5 C04).
//
// Single task. run = history h (0..6 operations, some of which fail midway) · optional "gc"
// event · optional synthetic residue(p) in every pooled object · probe x · later calls g (0..4)
// · every pool overwritten with 0xFF. Oracles: (1) f(x) after h == f(x) on pristine state, value
// and error; (2) the objects returned for x are unchanged after g and after the overwrite.
//
// With one P, GC off and one goroutine, sync.Pool hands the probe exactly the object its
// predecessor put back, so the true residue of a generated history reaches the probe
// deterministically; Pristine() (verif hooks) restores process-start content in every pooled
// object and empties the zone cache.

func init() {
	p := &Prop{
		ID:    "C04",
		Level: "exploration",
		Rule: "a run is non-trivial when the probe was preceded by at least one history operation or a synthetic residue and the pools held at least one object at that moment; " +
			"distinct = distinct run digests (every operation's entry point, device counts and canonical result, residue mode)",
		QuickSec: 45, ThoroughSec: 600,
		Setup: func(repo, tier string) error { return LoadSamples(repo) },
		Assumptions: []string{
			"worker runs one goroutine on one P with GC disabled, so sync.Pool is LIFO and the probe receives the object the last history step returned; GC is an explicit simulator event",
			"pristine state = every pooled object zeroed and the zone cache emptied through the verif hooks; once per check a sample of probes is recomputed in fresh processes (solo confirmation of every violation does the same for the failing case)",
			"synthetic residue overwrites tag/scratch buffers, pixel buffers and pooled bufio.Reader buffers (0xFF / random / plausible patterns)",
		},
	}
	nFresh := func(tier string, seed uint64) uint64 {
		if tier == "thorough" {
			return 512
		}
		return 96
	}
	freshOp := func(c *Ctx) *opCase {
		// both campaigns draw the same operation for a run index: from lanes of their own that
		// depend on (seed, run) only
		c2 := *c
		c2.Lanes = core.NewLanes(c.Seed, c.Prop, "fresh-probes", c.Run, nil, false)
		return drawOp(&c2, c2.L("gen"), true)
	}
	p.Campaigns = []*Campaign{{
		// phase 0, every run in a fresh worker process and without touching the verif hooks: what
		// an operation returns on true process-start state
		Name: "fresh-probes", Phase: 0, Fresh: true, Enumerated: true, Weight: 1, N: nFresh,
		Run: func(c *Ctx) {
			o := freshOp(c)
			c.Descf("fresh process: %s", o)
			c.Dev.Budget = c08Budget(len(o.data))
			harness.LogDefault()
			res, _ := o.run(c, Delivery{})
			if c.PlanOnly {
				return
			}
			c.NonTrivial = true
			canon := "budget"
			if !isBudget(res) {
				canon = res.Canon()
				if res.Panic != nil {
					canon = "panic:" + res.Panic.Class + ":" + res.Panic.Func
				}
			}
			c.Export(fmt.Sprintf("fresh/%d", c.Run), fmt.Sprintf("%016x", harness.FNV([]byte(canon))))
		},
	}, {
		// phase 1, in a long-lived worker after the histories: the same operations after Pristine()
		// must return what they returned at process start - this validates that Pristine() is
		// process-start state, and it sees state the hooks do not know (a cache added to the
		// library would be invisible to the main oracle, whose both sides share it)
		Name: "pristine-vs-fresh", Phase: 1, Enumerated: true, Weight: 1, N: nFresh,
		Run: func(c *Ctx) {
			o := freshOp(c)
			c.Descf("after histories + Pristine(): %s", o)
			want, ok := KV[fmt.Sprintf("fresh/%d", c.Run)]
			if c.PlanOnly {
				return
			}
			if !ok {
				c.Inc("probe:fresh-result-missing (skipped)")
				return
			}
			c.Dev.Budget = c08Budget(len(o.data))
			harness.LogDefault()
			harness.Pristine()
			res, _ := o.run(c, Delivery{})
			canon := "budget"
			if !isBudget(res) {
				canon = res.Canon()
				if res.Panic != nil {
					canon = "panic:" + res.Panic.Class + ":" + res.Panic.Func
				}
			}
			c.NonTrivial = true
			c.Inc("probe:pristine-compared-with-fresh-process")
			if got := fmt.Sprintf("%016x", harness.FNV([]byte(canon))); got != want {
				c.Fail("mismatch", o.e.Name, "fresh-process", fmt.Sprintf("result after earlier runs and Pristine() differs from the result of the same call in a fresh process (%s vs %s): err=%s", got, want, res.Err))
			}
		},
	}, {
		Name: "histories", Phase: 1, Weight: 12,
		N: func(tier string, seed uint64) uint64 {
			if tier == "thorough" {
				return 2000000
			}
			return 120000
		},
		Run: func(c *Ctx) {
			g := c.L("gen")
			cfg := c.L("cfg")
			probe := drawOp(c, g, true)
			// sometimes the history also holds hundreds of tiny files with zone offsets the process
			// has not seen (enough to fill whatever the library keeps per offset), and the probe is
			// one more such file
			flood, floodStyle, floodSeed := 0, 0, uint64(0)
			var floodTmpl []byte
			var floodAt [3]int
			if fl := c.L("cfg:x"); fl.Chance(1, 10) {
				flood = []int{345, 400, 750, 120}[fl.Intn(4)]
				floodStyle, floodSeed = []int{1, 1, 3, 4}[fl.Intn(4)], fl.U64()
				floodTmpl, floodAt = zoneTemplate(fl)
				if fl.Chance(2, 3) {
					probe = &opCase{data: zoneFile(floodTmpl, floodAt, floodStyle, floodSeed, flood+7), name: "zone-tiff", trunc: -1,
						e: harness.EntryByName([]string{"Decode", "DecodeTiff", "exif2.Parse"}[fl.Intn(3)])}
				}
				c.Inc("fault:history-floods-the-zone-cache:configured")
			}
			if y := c.L("cfg:y"); flood == 0 && y.Chance(1, 3) {
				// what the pooled tables still hold matters where a decode stops early: a generated
				// file cut exactly at one of its structure boundaries as probe
				for i := 0; i < 4; i++ {
					if o := drawOp(c, y, true); len(o.fmap) > 0 {
						b := boundsFromMap(o.fmap, len(o.data))
						o.trunc = b[y.Intn(len(b))]
						probe = o
						c.Inc("probe:probe-cut-at-structure-boundary")
						break
					}
				}
			}
			nh := cfg.Intn(7)
			var hist, later []*opCase
			for i := 0; i < nh; i++ {
				hist = append(hist, drawOp(c, c.L(fmt.Sprintf("hist:%d", i)), true))
			}
			gc := nh > 0 && cfg.Chance(1, 8)
			gcAt := 0
			if gc {
				gcAt = cfg.Intn(nh)
			}
			res := cfg.Intn(4)
			resSeed := cfg.U64()
			ng := cfg.Intn(5)
			for i := 0; i < ng; i++ {
				later = append(later, drawOp(c, c.L(fmt.Sprintf("later:%d", i)), true))
			}
			// the probe's stream may arrive in pieces (the same pieces in both executions): what lies
			// behind the delivered bytes in a pooled reader's buffer is the previous call's data, and
			// it is within reach only while the current stream has not overwritten it
			var pd Delivery
			if x := c.L("dev:0:x"); x.Chance(1, 3) {
				if len(probe.fmap) > 0 && x.Bool() {
					pd = Delivery{Piece: world.PieceAligned, Bounds: boundsFromMap(probe.fmap, len(probe.data)), DataEOF: x.Bool()}
				} else {
					pd = drawDelivery(x)
				}
				c.Inc("fault:short-delivery-of-the-probe:configured")
			}
			c.Descf("probe: %s delivery=%s", probe, pd)
			for i, h := range hist {
				c.Descf("history[%d]: %s", i, h)
			}
			c.Descf("gc=%v@%d residue=%s later=%d", gc, gcAt, harness.ResNames[res], ng)
			if c.Describe && len(probe.data) <= 600 {
				c.Descf("probe hex=%x", probe.data)
			}
			budget := func(o *opCase) { c.Dev.Budget = c.Dev.Seq + c08Budget(len(o.data)) }

			// reference: the probe on pristine state (empty pools: the run is a function of its
			// seed and index, not of what earlier runs in this worker left in the pools)
			harness.LogDefault()
			harness.GCPoint()
			budget(probe)
			ref, _ := probe.run(c, pd)
			if c.PlanOnly {
				return
			}
			// the history, from pristine state
			harness.Pristine()
			for i, h := range hist {
				budget(h)
				hr, _ := h.run(c, Delivery{})
				if hr.Panic != nil {
					c.Inc("probe:history-step-panicked")
				} else if !hr.ErrNil {
					c.Inc("probe:history-step-failed-midway")
				}
				if gc && i == gcAt {
					harness.GCOnly()
					c.Inc("fault:gc:fired")
				}
			}
			if flood > 0 {
				fe := harness.EntryByName("DecodeTiff")
				harness.SkipCanon = true
				for i := 0; i < flood; i++ {
					d := zoneFile(floodTmpl, floodAt, floodStyle, floodSeed, i)
					c.Dev.Budget = c.Dev.Seq + tickBudget(len(d))
					harness.Invoke(fe, &harness.Env{}, newReader(c.Dev, d, Fault{}, Delivery{}))
				}
				harness.SkipCanon = false
			}
			harness.SetResidue(res, resSeed)
			c.Inc("fault:residue(" + harness.ResNames[res] + "):configured")
			eb, pb, rb := harness.PoolObjects()
			zc := harness.ZoneCache()
			if len(zc) > 0 {
				c.Inc("probe:zone-cache-non-empty-before-probe")
			}
			budget(probe)
			got, _ := probe.run(c, pd)
			c.Inc("entry:" + probe.e.Name)
			if (nh > 0 || res != harness.ResNone) && eb+pb+rb > 0 {
				c.NonTrivial = true
			}
			if isBudget(ref) || isBudget(got) {
				c.Inc("probe:tick-budget-exceeded (skipped)")
				return
			}
			if ref.Panic != nil {
				c.Inc("probe:panic-seen-(C01's subject)")
			}
			if site, detail := resultDiff(ref, got); site != "" {
				c.Fail("mismatch", probe.e.Name, site, fmt.Sprintf("pristine state vs after history (residue=%s, %d history steps, zone cache %v): %s", harness.ResNames[res], nh, zc, detail))
				return
			}
			// immutability of the returned objects, and of the caller's own reader: a bufio.Reader
			// the harness handed in still belongs to the harness after the call returned
			snap := got.Recanon()
			brSnap := ""
			if got.Br != nil {
				pk, _ := got.Br.Peek(minInt(got.Br.Buffered(), 64))
				brSnap = fmt.Sprintf("%d:%x", got.Br.Buffered(), pk)
			}
			for _, l := range later {
				budget(l)
				l.run(c, Delivery{})
			}
			harness.SetResidue(harness.ResFF, 1)
			if after := got.Recanon(); after != snap {
				c.Fail("mismatch", probe.e.Name, "result-mutated", "a returned result changed after later calls / after the pools were overwritten")
			}
			if got.Br != nil {
				pk, _ := got.Br.Peek(minInt(got.Br.Buffered(), 64))
				if now := fmt.Sprintf("%d:%x", got.Br.Buffered(), pk); now != brSnap {
					c.Fail("mismatch", probe.e.Name, "caller-reader-mutated", "the bufio.Reader the caller passed in was changed by later calls on other readers")
				}
				c.Inc("probe:caller-reader-immutability-checked")
			}
			c.Inc("probe:immutability-checked")
			harness.Pristine()
		},
	}}
	// the comparison with fresh processes runs after the histories of the same worker
	if len(p.Campaigns) == 3 {
		p.Campaigns[1], p.Campaigns[2] = p.Campaigns[2], p.Campaigns[1]
	}
	Register(p)
}

func isBudget(r *harness.Result) bool { return r.Panic != nil && r.Panic.Class == "budget" }
