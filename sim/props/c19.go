package props

import (
	"fmt"
	"image"
	"math/bits"

	"verifsim/core"
	"verifsim/gen"
	"verifsim/harness"
	"verifsim/model"
)

// C19 — a perceptual hash is its defined function of the pixels; wrong sizes rejected
// (DESIGN §5 C19). S: a run is a history of 1..6 hash calls with pixel-pool residue (true residue
// of the previous call, or synthetic NaN/huge/plausible values) and the kernel dispatch knob;
// the same image must hash the same whatever preceded it, a sub-image must hash like the same
// pixels at the origin, and every other size and nil must be rejected instead of being hashed
// from whatever the pool holds. G: an independent float64 DCT-II threshold model with margin tau.

// hashCall is one drawn call of a history.
type hashCall struct {
	fn    int
	valid bool
	desc  string
	img   image.Image
	lum   []float64
	twin  image.Image // same pixels, other origin / parent (valid calls only)
	kind  int
	sub   bool
}

// tauFor derives the margin from the rounding bounds of the path under test, scaled by ||x||_1:
// the float64 path on integer luminance inputs is exact to ~1e-12 relative; the float32 path
// rounds every butterfly (C18's documented bound is 1e-5 ||x||_1); the YCbCr fast path works in
// 16.8 fixed point with the blue channel scaled by 257/256 relative to red and green
// (0.114 * 1/256 of the luminance) and truncating divisions (<= 1/256 level per channel).
func tauFor(fn, kind int, l1 float64, n int) float64 {
	k := 1e-9
	if fn == harness.HPHash64Alt || fn == harness.HPHash256Alt {
		k = 4e-5
	}
	if kind == gen.KYCbCr {
		k += 0.114/256 + 3.0/256/128
	}
	return k*l1 + 1e-6*float64(n)
}

func drawHashCall(c *Ctx, l *core.Lane) *hashCall {
	h := &hashCall{fn: l.Intn(4)}
	n, _ := harness.HashSize(h.fn)
	if n == 256 && !l.Chance(1, 3) {
		h.fn -= 2 // most calls use the 64-point hashes (the 256-point reference costs 16x)
		n = 64
	}
	h.kind = l.Intn(gen.NumKinds)
	fill := core.NewSplitMix(l.U64() | 1)
	switch {
	case l.Chance(1, 4): // wrong size or nil
		if l.Chance(1, 6) {
			h.desc = "nil image"
			return h
		}
		ws := gen.WrongSizes[l.Intn(len(gen.WrongSizes))]
		if ws[0] == n && ws[1] == n {
			ws = [2]int{n, n / 2}
		}
		h.img = gen.BlankImage(h.kind, ws[0], ws[1], fill)
		h.desc = fmt.Sprintf("wrong size %dx%d %s", ws[0], ws[1], gen.KindNames[h.kind])
	default:
		px, class := gen.DrawPixels(l, n)
		h.valid = true
		sub := l.Chance(1, 3) && h.kind != gen.KGeneric
		ox, oy, pad := 0, 0, 0
		if sub {
			ox, oy, pad = l.Intn(40), l.Intn(40), 1+l.Intn(24)
			if l.Chance(1, 4) {
				ox, oy = 0, 0 // sub-image at the origin of a wider parent (stride > width)
			}
		} else if h.kind == gen.KGeneric && l.Chance(1, 3) {
			ox, oy = l.Intn(40), l.Intn(40)
		}
		h.sub = sub
		h.img, h.lum = px.Materialise(h.kind, ox, oy, sub, pad, fill)
		// twin: the same pixels at the origin without a parent
		h.twin, _ = px.Materialise(h.kind, 0, 0, false, 0, fill)
		h.desc = fmt.Sprintf("%dx%d %s %s origin=(%d,%d) sub=%v pad=%d", n, n, gen.KindNames[h.kind], class, ox, oy, sub, pad)
	}
	return h
}

func c19Run(c *Ctx) {
	cfg := c.L("cfg")
	nc := 1 + cfg.Intn(6)
	calls := make([]*hashCall, nc)
	for i := range calls {
		calls[i] = drawHashCall(c, c.L(fmt.Sprintf("call:%d", i)))
	}
	asm := cfg.Bool()
	res := cfg.Intn(4)
	resSeed := cfg.U64()
	for i, h := range calls {
		c.Descf("call %d: %s(%s)", i, harness.HashNames[h.fn], h.desc)
	}
	c.Descf("dispatch asm=%v residue-before-last=%s", asm, harness.ResNames[res])
	if c.PlanOnly {
		c.PlanEntry = "imagehash"
		return
	}
	if !harness.SetDispatch(asm) {
		asm = false
		harness.SetDispatch(false)
	}
	c.Inc(fmt.Sprintf("cfg.dispatch:asm=%v", asm))
	harness.GCPoint()
	type seen struct {
		canon string
	}
	for i, h := range calls {
		if i == nc-1 {
			harness.SetResidue(res, resSeed)
			c.Inc("fault:residue(" + harness.ResNames[res] + "):configured")
		}
		entry := harness.HashNames[h.fn]
		r := harness.Hash(h.fn, h.img)
		c.Dev.Seq++ // one hash call = one tick of simulated time in this world
		c.D.Str(entry)
		c.D.Str(r.Canon())
		c.Inc("entry:" + entry)
		if !h.valid {
			c.Inc("probe:wrong-size-or-nil")
			if r.Panic != nil {
				c.Fail("mismatch", entry, "wrong-size-panic", fmt.Sprintf("%s: panics instead of returning an error: %s", h.desc, r.Panic.Value))
				return
			}
			if r.ErrOK {
				c.Fail("mismatch", entry, "wrong-size-accepted", fmt.Sprintf("%s: accepted and hashed to %016x (after %d earlier calls)", h.desc, r.Words[0], i))
				return
			}
			c.NonTrivial = c.NonTrivial || i > 0
			continue
		}
		if r.Panic != nil {
			c.Fail("mismatch", entry, "panic:"+r.Panic.Func, fmt.Sprintf("%s: panics: %s", h.desc, r.Panic.Value))
			return
		}
		if !r.ErrOK {
			c.Fail("mismatch", entry, "valid-rejected", fmt.Sprintf("%s: rejected with %s", h.desc, r.Err))
			return
		}
		// (a)(b)(c) against the reference coefficients
		n, k := harness.HashSize(h.fn)
		coef, l1 := model.LowFreqDCT(h.lum, n, k)
		tau := tauFor(h.fn, h.kind, l1, n)
		if v := model.HashVerdict(coef, r.Bits(h.fn), tau); v != "" {
			c.Fail("mismatch", entry, "definition", fmt.Sprintf("%s: %s (tau=%.4g, ||x||1=%.4g, hash %016x..., history of %d calls, asm=%v)", h.desc, v, tau, l1, r.Words[0], i, asm))
			return
		}
		c.Inc("probe:definition-checked")
		// history independence and origin independence: the twin (same pixels, origin (0,0), no
		// parent) hashed on pristine pools must give the same bits
		if cfg.Chance(1, 2) {
			harness.Pristine()
			// like with like: a YCbCr layout the vector kernel cannot index is converted by the
			// portable kernel, so its twin is too (kernel against kernel is the definition
			// clause's margin, not this bit-for-bit clause)
			portableTwin := asm && h.kind == gen.KYCbCr && h.img.Bounds() != h.twin.Bounds() || asm && h.kind == gen.KYCbCr && h.sub
			if portableTwin {
				harness.SetDispatch(false)
			}
			t := harness.Hash(h.fn, h.twin)
			if portableTwin {
				harness.SetDispatch(true)
			}
			if t.Panic != nil || t.Canon() != r.Canon() {
				site := "history-or-origin"
				c.Fail("mismatch", entry, site, fmt.Sprintf("%s: hash %s after a history of %d calls (residue %s) but %s for the same pixels at the origin on pristine pools", h.desc, r.Canon(), i, harness.ResNames[res], t.Canon()))
				return
			}
			c.Inc("probe:twin-compared")
		}
		// primary vs alternative agree outside the margin
		other := h.fn ^ 1
		o := harness.Hash(other, h.img)
		if o.Panic == nil && o.ErrOK {
			tau2 := tauFor(other, h.kind, l1, n)
			if tau2 < tau {
				tau2 = tau
			}
			if v := model.HashVerdict(coef, o.Bits(other), tau2); v != "" {
				c.Fail("mismatch", harness.HashNames[other], "definition", fmt.Sprintf("%s: %s (tau=%.4g)", h.desc, v, tau2))
				return
			}
			c.Inc("probe:primary-vs-alternative")
		}
		if i > 0 {
			c.NonTrivial = true
		}
	}
	// distances are Hamming distances
	if nc >= 3 {
		var hs []uint64
		for _, h := range calls {
			if h.valid && h.fn < harness.HPHash256 {
				hs = append(hs, harness.Hash(h.fn, h.img).Words[0])
			}
		}
		if len(hs) >= 3 {
			a, b, d := hs[0], hs[1], hs[2]
			if harness.Distance64(a, a) != 0 || harness.Distance64(a, b) != harness.Distance64(b, a) || harness.Distance64(a, b) != bits.OnesCount64(a^b) ||
				harness.Distance64(a, d) > harness.Distance64(a, b)+harness.Distance64(b, d) {
				c.Fail("mismatch", "PHash64.Distance", "hamming", fmt.Sprintf("distance is not the Hamming distance for %016x %016x %016x", a, b, d))
			}
			c.Inc("probe:distance-checked")
		}
	}
	harness.Pristine()
}

func init() {
	p := &Prop{
		ID:    "C19",
		Level: "exploration",
		Rule: "a run is non-trivial when a judged call was preceded by at least one other hash call or a synthetic pool residue; " +
			"distinct = distinct run digests (entry points and canonical hash results of the whole history)",
		QuickSec: 60, ThoroughSec: 600,
		Assumptions: []string{
			"reference: float64 luminance 0.299R+0.587G+0.114B of the pixels the image holds -> separable unscaled DCT-II from the definition -> top-left 8x8 / 16x16 block, bit 63-(8v+u) resp. word (16v+u)/64 bit 63-((16v+u) mod 64)",
			"margin tau is derived from the rounding bounds of the path under test scaled by ||x||_1 (float64 path 1e-9, float32 path 4e-5, YCbCr fixed-point path +0.114/256+3/32768), never from observed library output; bits within tau are don't-care, so constant images raise no alarm",
			"threshold clause: upper-half coefficients are set, set bits form an upper set, and no set coefficient lies below (min + upper median)/2 - the mean of the upper median and one lower-half value is what 'at or just below the median' admits",
			"images are opaque; YCbCr images are 4:4:4 and in gamut (colours pulled 1/8 towards mid-grey before conversion)",
			"both kernel dispatch settings run (this machine has AVX2)",
		},
	}
	p.Campaigns = []*Campaign{{
		// distances are Hamming distances: pairs at every exact distance 0..256 (0..64 for the
		// 64-bit hash), plus symmetry, identity and the triangle inequality on a third hash
		Name: "distances", Enumerated: true, Weight: 1,
		N: func(tier string, seed uint64) uint64 { return 257 },
		Run: func(c *Ctx) {
			n := int(c.Run)
			r := core.NewSplitMix(uint64(n)*977 + c.Seed)
			var a, b, d [4]uint64
			for i := range a {
				a[i], d[i] = r.Next(), r.Next()
			}
			b = a
			perm := make([]int, 256)
			for i := range perm {
				perm[i] = i
			}
			for i := 255; i > 0; i-- {
				k := r.Intn(i + 1)
				perm[i], perm[k] = perm[k], perm[i]
			}
			for _, bit := range perm[:n] {
				b[bit/64] ^= 1 << uint(bit%64)
			}
			c.Descf("256-bit hashes at Hamming distance %d", n)
			if c.PlanOnly {
				return
			}
			c.Dev.Seq++
			pop := func(x, y [4]uint64) int {
				t := 0
				for i := range x {
					t += bits.OnesCount64(x[i] ^ y[i])
				}
				return t
			}
			if pi := harness.Guard(func() {
				if g := harness.Distance256(a, b); g != n || harness.Distance256(b, a) != n {
					c.Fail("mismatch", "PHash256.Distance", "hamming", fmt.Sprintf("hashes differing in exactly %d bits have distance %d / %d", n, g, harness.Distance256(b, a)))
					return
				}
				if harness.Distance256(a, a) != 0 {
					c.Fail("mismatch", "PHash256.Distance", "hamming", "d(a,a) != 0")
					return
				}
				if harness.Distance256(a, d) != pop(a, d) || harness.Distance256(a, d) > harness.Distance256(a, b)+harness.Distance256(b, d) {
					c.Fail("mismatch", "PHash256.Distance", "hamming", "distance is not popcount(a^b) or violates the triangle inequality")
					return
				}
				if n <= 64 {
					x, y := a[0], a[0]
					m := 0
					for _, bit := range perm {
						if m == n {
							break
						}
						if bit < 64 {
							y ^= 1 << uint(bit)
							m++
						}
					}
					if g := harness.Distance64(x, y); g != m || harness.Distance64(y, x) != m {
						c.Fail("mismatch", "PHash64.Distance", "hamming", fmt.Sprintf("64-bit hashes differing in exactly %d bits have distance %d", m, g))
					}
				}
			}); pi != nil {
				c.Fail("mismatch", "Distance", "panic", pi.Value)
			}
			c.NonTrivial = true
			c.D.Int(n)
		},
	}, {
		Name: "histories", Weight: 8,
		N: func(tier string, seed uint64) uint64 {
			if tier == "thorough" {
				return 600000
			}
			return 40000
		},
		Run: c19Run,
	}}
	Register(p)
}
