package props

import (
	"fmt"
	"sort"

	"github.com/evanoberholster/imagemeta/exif2"
	"github.com/evanoberholster/imagemeta/imagetype"

	"verifsim/core"
	"verifsim/gen"
	"verifsim/harness"
	"verifsim/model"
)

// C03, C06, C07 share the Exif record/layout generator and the container embeddings.

var zeroExif = harness.CanonExif(exif2.Exif{})

// paths whose value is derived (enum mirrors of Make/Model) or judged separately
var skipPaths = map[string]bool{"Exif.CameraMake": true, "Exif.CameraModel": true, "Exif.ImageType": true}

// modelDiff returns the first path at which the library's result differs from the model.
func modelDiff(res *harness.Result, want map[string]model.Want) (path, got, exp string) {
	keys := make([]string, 0, len(want))
	for k := range want {
		keys = append(keys, k)
	}
	sort.Strings(keys)
	for _, k := range keys {
		g := res.Fields.Get(k)
		if !want[k].Match(g) {
			return k, g, want[k].String()
		}
	}
	// every field the model does not mention must be the zero value
	for i, k := range res.Fields.K {
		if _, ok := want[k]; ok || skipPaths[k] {
			continue
		}
		if z := zeroExif.Get(k); res.Fields.V[i] != z {
			return k, res.Fields.V[i], z + " (zero value: field absent from the record)"
		}
	}
	return "", "", ""
}

// payload is one drawn (record, layout) pair.
type payload struct {
	rec *gen.Record
	ly  *gen.Layout
	ok  bool
}

func drawPayload(c *Ctx, l *core.Lane, maxStr int, opts gen.LayoutOpts) payload {
	rec := gen.DrawRecord(l, maxStr)
	if l.Chance(1, 12) {
		rec.DNG = true
	}
	ly := gen.BuildTIFF(l, rec, opts)
	enc := ly.Encode(false)
	c.Inc("probe:payloads")
	if enc.MaxPending > 84 || enc.MaxEntries > 128 {
		c.Inc("probe:over-documented-limits (skipped)")
		return payload{rec, ly, false}
	}
	if enc.MaxPending >= 60 {
		c.Inc("probe:pending>=60")
	}
	return payload{rec, ly, true}
}

func describeRecord(c *Ctx, r *gen.Record, enc *gen.Encoded) {
	if !c.Describe {
		return
	}
	s := func(p *string) string {
		if p == nil {
			return "-"
		}
		if len(*p) > 40 {
			return fmt.Sprintf("%q...(%d)", (*p)[:40], len(*p))
		}
		return fmt.Sprintf("%q", *p)
	}
	c.Descf("record: fields=%d make=%s model=%s artist=%s owner=%s serial=%s/%s", r.FieldCount(), s(r.Make), s(r.Model), s(r.Artist), s(r.OwnerName), s(r.CameraSerial), s(r.BodySerial))
	if r.ModifyDate != nil {
		c.Descf("  modify=%s subsec=%s offset=%s", r.ModifyDate, s(r.SubSec), s(r.Offset))
	}
	if r.DateOrig != nil {
		c.Descf("  original=%s subsec=%s offset=%s", r.DateOrig, s(r.SubSecOrig), s(r.OffsetOrig))
	}
	if r.DateDig != nil {
		c.Descf("  digitized=%s subsec=%s offset=%s", r.DateDig, s(r.SubSecDig), s(r.OffsetDig))
	}
	if r.Lat != nil {
		c.Descf("  gps lat=%v%c lon=%v%c", *r.Lat, *r.LatRef, *r.Lon, *r.LonRef)
	}
	if enc != nil {
		c.Descf("  tiff: len=%d firstIFD=%d maxPending=%d maxEntries=%d", len(enc.Bytes), enc.FirstIFD, enc.MaxPending, enc.MaxEntries)
		if len(enc.Bytes) <= 400 {
			c.Descf("  tiff hex=%x", enc.Bytes)
		}
	}
}

func wantType(rec *gen.Record, base imagetype.ImageType) string {
	if rec.DNG && base == imagetype.ImageTiff {
		return fmt.Sprint(uint8(imagetype.ImageDNG))
	}
	return fmt.Sprint(uint8(base))
}

func init() {
	p := &Prop{
		ID:    "C03",
		Level: "exploration",
		Rule: "cases = seeded (record, forward layout, byte order, entry point); non-trivial = the record has >= 3 fields and the file decoded without error; " +
			"distinct = distinct run digests (entry point, device counts, canonical decoded result)",
		QuickSec: 30, ThoroughSec: 480,
		Assumptions: []string{
			"generator restrictions (each because the result type cannot represent more): width/height <= 65535; bias numerator -127..127, denominator 1..127; GPS time rationals with denominators dividing numerators; printable ASCII strings without trailing blank; makes written in the spelling the result reports; at most one of CameraSerialNumber/BodySerialNumber; OwnerName only next to Artist; offsets/sub-seconds only next to their date",
			"rationals are compared exactly when numerator and denominator are < 2^24, within 1 ulp otherwise; APEX-derived f-number within 0.01; GPS coordinates within 4 ulp (float64)",
			"fault-free device, pristine shared state (verif hooks), so a failure here is never a C04/C08 effect",
		},
	}
	entries := []string{"Decode", "DecodeTiff", "exif2.Parse"}
	p.Campaigns = []*Campaign{{
		Name: "records", Weight: 1,
		N: func(tier string, seed uint64) uint64 {
			if tier == "thorough" {
				return 6000000
			}
			return 400000
		},
		Run: func(c *Ctx) {
			g := c.L("gen")
			pl := drawPayload(c, g, 2000, gen.LayoutOpts{Foreign: 14, IFD1: true})
			if !pl.ok {
				return
			}
			big := g.Bool()
			enc := pl.ly.Encode(big)
			file := gen.TIFFFile(g, enc.Bytes, g.Bool())
			e := harness.EntryByName(entries[c.L("cfg").Intn(len(entries))])
			describeRecord(c, pl.rec, enc)
			c.Descf("byteorder big=%v entry=%s filelen=%d", big, e.Name, len(file))
			harness.Pristine()
			c.Dev.Budget = tickBudget(len(file))
			r := newReader(c.Dev, file, Fault{}, Delivery{})
			res := invoke(c, e, &harness.Env{}, r)
			if c.PlanOnly {
				return
			}
			c.Inc("entry:" + e.Name)
			if res.Panic != nil {
				c.Fail("mismatch", e.Name, "panic:"+res.Panic.Func, "decode of a well-formed file panicked: "+res.Panic.Value)
				return
			}
			if !res.ErrNil {
				c.Fail("mismatch", e.Name, "error", "decode of a well-formed file returned error: "+res.Err)
				return
			}
			want := model.ExpectExif(pl.rec)
			if path, got, exp := modelDiff(res, want); path != "" {
				c.Fail("mismatch", e.Name, path, fmt.Sprintf("field %s: library reports %s, the file encodes %s", path, got, exp))
				return
			}
			if got, exp := res.Fields.Get("Exif.ImageType"), wantType(pl.rec, imagetype.ImageTiff); got != exp {
				c.Fail("mismatch", e.Name, "Exif.ImageType", fmt.Sprintf("image type %s, want %s", got, exp))
				return
			}
			c.NonTrivial = pl.rec.FieldCount() >= 3
			// metamorphic twin: the same record without any foreign tag / padding / shuffling must
			// decode identically ("unknown or unrelated tags ... do not perturb the result")
			if c.L("cfg").Chance(1, 3) {
				ifd0 := gen.BuildTIFF(g, pl.rec, gen.LayoutOpts{Canonical: true})
				enc2 := ifd0.Encode(big)
				file2 := gen.TIFFFile(g, enc2.Bytes, false)
				harness.Pristine()
				r2 := newReader(c.Dev, file2, Fault{}, Delivery{})
				res2 := invoke(c, e, &harness.Env{}, r2)
				c.Inc("probe:stripped-twin-compared")
				if res2.Panic != nil || res2.Canon() != res.Canon() {
					path, a, b := harness.Diff(res.Fields, res2.Fields, nil)
					c.Fail("mismatch", e.Name, "twin:"+path, fmt.Sprintf("with foreign tags/padding: %s, stripped: %s (err %s vs %s)", a, b, res.Err, res2.Err))
				}
			}
		},
	}}
	Register(p)
}
