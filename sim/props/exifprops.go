package props

import (
	"fmt"
	"github.com/evanoberholster/imagemeta/exif2/ifds/mknote/canon"
	"sort"

	"github.com/evanoberholster/imagemeta/exif2"
	"github.com/evanoberholster/imagemeta/imagetype"

	"verifsim/core"
	"verifsim/gen"
	"verifsim/harness"
	"verifsim/model"
)

// C03, C06, C07 share the Exif record/layout generator and the container embeddings.

var zeroExif = harness.CanonExif(exif2.Exif{})

// paths whose value is derived (enum mirrors of Make/Model) or judged separately
var skipPaths = map[string]bool{"Exif.CameraMake": true, "Exif.CameraModel": true, "Exif.ImageType": true}

// modelDiff returns the first path at which the library's result differs from the model.
func modelDiff(res *harness.Result, want map[string]model.Want) (path, got, exp string) {
	keys := make([]string, 0, len(want))
	for k := range want {
		keys = append(keys, k)
	}
	sort.Strings(keys)
	for _, k := range keys {
		g := res.Fields.Get(k)
		if !want[k].Match(g) {
			return k, g, want[k].String()
		}
	}
	// every field the model does not mention must be the zero value
	for i, k := range res.Fields.K {
		if _, ok := want[k]; ok || skipPaths[k] {
			continue
		}
		if z := zeroExif.Get(k); res.Fields.V[i] != z {
			return k, res.Fields.V[i], z + " (zero value: field absent from the record)"
		}
	}
	return "", "", ""
}

// payload is one drawn (record, layout) pair.
type payload struct {
	rec *gen.Record
	ly  *gen.Layout
	ok  bool
}

func drawPayload(c *Ctx, l *core.Lane, maxStr int, opts gen.LayoutOpts) payload {
	rec := gen.DrawRecord(l, maxStr)
	if l.Chance(1, 12) {
		rec.DNG = true
	}
	tweakRecord(c, rec)
	ly := gen.BuildTIFF(l, rec, opts)
	enc := ly.Encode(false)
	c.Inc("probe:payloads")
	if enc.MaxPending > 84 || enc.MaxEntries > 128 {
		c.Inc("probe:over-documented-limits (skipped)")
		return payload{rec, ly, false}
	}
	if enc.MaxPending >= 60 {
		c.Inc("probe:pending>=60")
	}
	return payload{rec, ly, true}
}

// knownCanon are names of the library's Canon model table that it reports as written.
var knownCanon = []string{"Canon EOS R5", "Canon EOS R6", "Canon EOS 90D", "Canon EOS R3", "Canon EOS RP", "Canon EOS 6D", "Canon EOS R"}

// tweakRecord (side lane) covers values the record generator leaves out.
func tweakRecord(c *Ctx, rec *gen.Record) {
	y := c.L("rec:y")
	if rec.GPSTime != nil && y.Chance(1, 3) {
		// hours and minutes as fractions whose sum is still a whole number of seconds (10/1 h,
		// 61/2 min, 0/1 s is 10:30:30)
		dh := uint32([]int{2, 4, 8, 3}[y.Intn(4)])
		dm := uint32([]int{2, 3, 4, 6, 12}[y.Intn(5)])
		rec.GPSTime = &[3]gen.Rational{{N: uint32(y.Intn(24 * int(dh))), D: dh}, {N: uint32(y.Intn(60 * int(dm))), D: dm}, {N: uint32(y.Intn(60)), D: 1}}
		c.Inc("probe:gps-time-fractional-hours-minutes")
	}
	if y.Chance(1, 6) {
		// a camera of the model table: the number reported for it must not depend on whether the
		// Make or the Model value comes first in the file
		mk, md := "Canon", knownCanon[y.Intn(len(knownCanon))]
		if m, ok := canon.CameraModelFromString(md); ok && m.String() == md {
			rec.Make, rec.Model, rec.KnownModel = &mk, &md, uint32(m)
			c.Inc("probe:camera-of-the-model-table")
		}
		if y.Chance(1, 2) && rec.MakerNote == nil {
			// a maker note that is no Canon directory (a count in the byte order of an II file and
			// fewer bytes than that many entries): an unrelated value as far as the fields go
			n := 8 + y.Intn(30)
			k := 3
			if z := c.L("rec:z"); z.Chance(1, 2) {
				// ... or just enough bytes for the entries but not for the link behind them
				k = 1 + 2*z.Intn(2)
				n = 2 + 12*k - 3 + z.Intn(10)
			}
			note := make([]byte, n)
			for i := range note {
				note[i] = 1
			}
			note[0], note[1] = byte(k), 0
			if y.Bool() {
				note[0], note[1] = 0, byte(k)
			}
			rec.MakerNote = note
			c.Inc("probe:canon-opaque-maker-note")
		}
	} else if z := c.L("rec:z"); z.Chance(1, 8) && rec.MakerNote == nil {
		// a note that begins like a Nikon type-3 note (header, a Tiff header of its own) and ends
		// inside the directory it announces
		mk := "Nikon" // (the spelling the result reports, see the assumptions of C03)
		rec.Make = &mk
		note := []byte("Nikon\x00\x02\x10\x00\x00II*\x00\x08\x00\x00\x00\x03\x00")
		for i := z.Intn(24); i > 0; i-- {
			note = append(note, 1)
		}
		rec.MakerNote = note
		c.Inc("probe:nikon-note-shorter-than-its-directory")
	}
}

func describeRecord(c *Ctx, r *gen.Record, enc *gen.Encoded) {
	if !c.Describe {
		return
	}
	s := func(p *string) string {
		if p == nil {
			return "-"
		}
		if len(*p) > 40 {
			return fmt.Sprintf("%q...(%d)", (*p)[:40], len(*p))
		}
		return fmt.Sprintf("%q", *p)
	}
	c.Descf("record: fields=%d make=%s model=%s artist=%s owner=%s serial=%s/%s", r.FieldCount(), s(r.Make), s(r.Model), s(r.Artist), s(r.OwnerName), s(r.CameraSerial), s(r.BodySerial))
	if r.ModifyDate != nil {
		c.Descf("  modify=%s subsec=%s offset=%s", r.ModifyDate, s(r.SubSec), s(r.Offset))
	}
	if r.DateOrig != nil {
		c.Descf("  original=%s subsec=%s offset=%s", r.DateOrig, s(r.SubSecOrig), s(r.OffsetOrig))
	}
	if r.DateDig != nil {
		c.Descf("  digitized=%s subsec=%s offset=%s", r.DateDig, s(r.SubSecDig), s(r.OffsetDig))
	}
	if r.Lat != nil {
		c.Descf("  gps lat=%v%c lon=%v%c", *r.Lat, *r.LatRef, *r.Lon, *r.LonRef)
	}
	if enc != nil {
		c.Descf("  tiff: len=%d firstIFD=%d maxPending=%d maxEntries=%d", len(enc.Bytes), enc.FirstIFD, enc.MaxPending, enc.MaxEntries)
		if len(enc.Bytes) <= 400 {
			c.Descf("  tiff hex=%x", enc.Bytes)
		}
	}
}

func wantType(rec *gen.Record, base imagetype.ImageType) string {
	if rec.DNG && base == imagetype.ImageTiff {
		return fmt.Sprint(uint8(imagetype.ImageDNG))
	}
	return fmt.Sprint(uint8(base))
}

func init() {
	p := &Prop{
		ID:    "C03",
		Level: "exploration",
		Rule: "cases = seeded (record, forward layout, byte order, entry point); non-trivial = the record has >= 3 fields and the file decoded without error; " +
			"distinct = distinct run digests (entry point, device counts, canonical decoded result)",
		QuickSec: 30, ThoroughSec: 480,
		Assumptions: []string{
			"generator restrictions (each because the result type cannot represent more): width/height <= 65535; bias numerator -127..127, denominator 1..127; GPS time rationals whose sum is a whole number of seconds (fractional hours and minutes included); printable ASCII strings without trailing blank; makes written in the spelling the result reports; at most one of CameraSerialNumber/BodySerialNumber; OwnerName only next to Artist; offsets/sub-seconds only next to their date",
			"rationals are compared within 1 ulp of float32(n)/float32(d) (single- and double-rounded quotients are both faithful); APEX-derived f-number within 0.01; GPS coordinates within 4 ulp (float64)",
			"fault-free device, pristine shared state (verif hooks), so a failure here is never a C04/C08 effect",
		},
	}
	entries := []string{"Decode", "DecodeTiff", "exif2.Parse"}
	p.Campaigns = []*Campaign{{
		Name: "records", Weight: 1,
		N: func(tier string, seed uint64) uint64 {
			if tier == "thorough" {
				return 11000000
			}
			return 400000
		},
		Run: func(c *Ctx) {
			g := c.L("gen")
			lo := gen.LayoutOpts{Foreign: 14, IFD1: true}
			if x := c.L("gen:x"); x.Chance(1, 4) {
				// many further unknown tags spread over the directories: still within the documented
				// limits (checked below), but the pending-tag buffer is kept well filled
				lo.Bulk, lo.BulkSpread = 8+x.Intn(72), true
				c.Inc("probe:bulk-unknown-tags")
			}
			pl := drawPayload(c, g, 2000, lo)
			if !pl.ok {
				return
			}
			big := g.Bool()
			enc := pl.ly.Encode(big)
			file := gen.TIFFFile(g, enc.Bytes, g.Bool())
			e := harness.EntryByName(entries[c.L("cfg").Intn(len(entries))])
			describeRecord(c, pl.rec, enc)
			c.Descf("byteorder big=%v entry=%s filelen=%d", big, e.Name, len(file))
			harness.Pristine()
			c.Dev.Budget = tickBudget(len(file))
			r := newReader(c.Dev, file, Fault{}, Delivery{})
			res := invoke(c, e, &harness.Env{}, r)
			if c.PlanOnly {
				return
			}
			c.Inc("entry:" + e.Name)
			if res.Panic != nil {
				c.Fail("mismatch", e.Name, "panic:"+res.Panic.Func, "decode of a well-formed file panicked: "+res.Panic.Value)
				return
			}
			if !res.ErrNil {
				c.Fail("mismatch", e.Name, "error", "decode of a well-formed file returned error: "+res.Err)
				return
			}
			want := model.ExpectExif(pl.rec)
			if path, got, exp := modelDiff(res, want); path != "" {
				c.Fail("mismatch", e.Name, path, fmt.Sprintf("field %s: library reports %s, the file encodes %s", path, got, exp))
				return
			}
			// (a note that begins like a Nikon note turns the reported type into NEF whatever the
			// container: left out of the type clauses, D.4)
			nikonHdr := len(pl.rec.MakerNote) > 18 && string(pl.rec.MakerNote[:6]) == "Nikon\x00"
			if got, exp := res.Fields.Get("Exif.ImageType"), wantType(pl.rec, imagetype.ImageTiff); got != exp && !nikonHdr {
				c.Fail("mismatch", e.Name, "Exif.ImageType", fmt.Sprintf("image type %s, want %s", got, exp))
				return
			}
			c.NonTrivial = pl.rec.FieldCount() >= 3
			// metamorphic twin: the same record without any foreign tag / padding / shuffling must
			// decode identically ("unknown or unrelated tags ... do not perturb the result")
			if c.L("cfg").Chance(1, 3) {
				ifd0 := gen.BuildTIFF(g, pl.rec, gen.LayoutOpts{Canonical: true})
				enc2 := ifd0.Encode(big)
				file2 := gen.TIFFFile(g, enc2.Bytes, false)
				harness.Pristine()
				r2 := newReader(c.Dev, file2, Fault{}, Delivery{})
				res2 := invoke(c, e, &harness.Env{}, r2)
				c.Inc("probe:stripped-twin-compared")
				if res2.Panic != nil || res2.Canon() != res.Canon() {
					var skip map[string]bool
					if nikonHdr {
						skip = map[string]bool{"Exif.ImageType": true}
					}
					path, a, b := harness.Diff(res.Fields, res2.Fields, skip)
					if path == "" && res2.Panic == nil && res.Err == res2.Err {
						return
					}
					c.Fail("mismatch", e.Name, "twin:"+path, fmt.Sprintf("with foreign tags/padding: %s, stripped: %s (err %s vs %s)", a, b, res.Err, res2.Err))
				}
			}
		},
	}}
	Register(p)
}

// ---------------------------------------------------------------------------------------------
// C06 / C07

var containerEntries = [][]string{
	gen.CTIFF: {"Decode", "DecodeTiff", "exif2.Parse"},
	gen.CJPEG: {"Decode", "DecodeJPEG"},
	gen.CPNG:  {"DecodePng"},
	gen.CCR3:  {"Decode", "DecodeCR3"},
	gen.CHEIF: {"Decode", "DecodeHeif"},
}

var containerType = []imagetype.ImageType{
	gen.CTIFF: imagetype.ImageTiff,
	gen.CJPEG: imagetype.ImageJPEG,
	gen.CPNG:  imagetype.ImagePNG,
	gen.CCR3:  imagetype.ImageCR3,
	gen.CHEIF: imagetype.ImageHEIF,
}

// embedCase is one drawn payload in one container, serialisable in both byte orders with
// identical layout and surroundings.
type embedCase struct {
	rec     *gen.Record
	kind    int
	lys     []*gen.Layout // 1 layout, or 3 for CR3 (nil entries = directory absent)
	emb     *gen.Embedded // built around the little-endian serialisation
	okLimit bool
}

func encodeParts(lys []*gen.Layout, big bool) [][]byte {
	out := make([][]byte, len(lys))
	for i, ly := range lys {
		if ly != nil {
			out[i] = ly.Encode(big).Bytes
		}
	}
	return out
}

func drawEmbedCase(c *Ctx, g *core.Lane, kind int, rec *gen.Record, opts gen.LayoutOpts, surround bool, alt gen.Alt) *embedCase {
	ec := &embedCase{rec: rec, kind: kind, okLimit: true}
	if kind == gen.CCR3 {
		l1, l2, l4 := gen.BuildSplit(g, rec, opts)
		ec.lys = []*gen.Layout{l1, l2, l4}
	} else {
		ec.lys = []*gen.Layout{gen.BuildTIFF(g, rec, opts)}
	}
	for _, ly := range ec.lys {
		ly.ApplyAlt(alt)
	}
	for _, ly := range ec.lys {
		if ly == nil {
			continue
		}
		enc := ly.Encode(false)
		if enc.MaxPending > 84 || enc.MaxEntries > 128 {
			ec.okLimit = false
		}
		if kind == gen.CJPEG && len(enc.Bytes) > 65000 {
			ec.okLimit = false
		}
	}
	if !ec.okLimit {
		c.Inc("probe:over-documented-limits (skipped)")
		return ec
	}
	ec.emb = gen.EmbedX(g, c.L("emb:x"), kind, encodeParts(ec.lys, false), surround, c.L("emb:y"))
	return ec
}

func (ec *embedCase) file(big bool) []byte {
	if !big {
		return ec.emb.Bytes
	}
	return ec.emb.Swap(encodeParts(ec.lys, true))
}

func decodeFile(c *Ctx, e *harness.Entry, file []byte) *harness.Result {
	harness.Pristine()
	c.Dev.Budget = 0
	r := newReader(c.Dev, file, Fault{}, Delivery{})
	return invoke(c, e, &harness.Env{}, r)
}

func init() {
	p := &Prop{
		ID:    "C06",
		Level: "exploration",
		Rule: "cases = seeded (record, layout, byte order, container, surroundings, entry point); non-trivial = the record has >= 3 fields and both decodes returned without error; " +
			"distinct = distinct run digests (entry points, device counts, canonical results)",
		QuickSec: 40, ThoroughSec: 480,
		Assumptions: []string{
			"verdict is purely relational (container vs bare TIFF, and surroundings vs other surroundings); agreement with the model is only counted",
			"PNG is decoded through DecodePng only (Decode answers 'metadata not supported' for PNG by design)",
			"CR3: the same logical record split by directory (IFD0->CMT1, Exif->CMT2, GPS->CMT4)",
			"surrounding random content is screened so that it contains no TIFF signature",
		},
	}
	opts := gen.LayoutOpts{Foreign: 8, IFD1: true}
	p.Campaigns = []*Campaign{{
		Name: "embed", Weight: 1,
		N: func(tier string, seed uint64) uint64 {
			if tier == "thorough" {
				return 10000000
			}
			return 250000
		},
		Run: func(c *Ctx) {
			g := c.L("gen")
			cfg := c.L("cfg")
			rec := gen.DrawRecord(g, 1500)
			big := g.Bool()
			kind := cfg.Intn(5)
			alt := gen.DrawAlt(c.L("gen:x"))
			if y := c.L("gen:y"); y.Chance(1, 10) {
				// a text value longer than the 4 KiB readers can look ahead to: whatever is reported
				// for it, it is the same in every container
				alt.LongText = []int{5000, 9000, 16384, 17000}[y.Intn(4)] + y.Intn(8)
				c.Inc("probe:text-value-beyond-the-look-ahead")
			}
			if alt != (gen.Alt{}) {
				c.Inc("probe:alternative-encodings (LONG for SHORT, ISO x2, slot padding)")
			}
			if c.L("gen:y").Chance(1, 12) {
				rec.DNG = true // a DNGVersion tag: it makes a bare TIFF a DNG and changes no other container's type
			}
			nikonNote(c, rec)
			ref := drawEmbedCase(c, g, gen.CTIFF, rec, opts, false, alt)
			cand := drawEmbedCase(c, g, kind, rec, opts, true, alt)
			if !ref.okLimit || !cand.okLimit {
				return
			}
			if kind != gen.CCR3 {
				// same payload bytes in the container as in the bare TIFF
				cand = &embedCase{rec: rec, kind: kind, lys: ref.lys, okLimit: true}
				if kind == gen.CJPEG && len(ref.emb.Bytes) > 65000 {
					return
				}
				cand.emb = gen.EmbedX(g, c.L("emb:x"), kind, encodeParts(ref.lys, false), true, c.L("emb:y"))
			}
			eRef := harness.EntryByName("Decode")
			names := containerEntries[kind]
			e := harness.EntryByName(names[cfg.Intn(len(names))])
			describeRecord(c, rec, nil)
			c.Descf("container=%s entry=%s big=%v filelen=%d (reference: bare TIFF via Decode, len=%d)", gen.ContainerNames[kind], e.Name, big, len(cand.emb.Bytes), len(ref.emb.Bytes))
			if c.Describe && len(cand.emb.Bytes) <= 700 {
				c.Descf("container hex=%x", cand.file(big))
			}
			rr := decodeFile(c, eRef, ref.file(big))
			rc := decodeFile(c, e, cand.file(big))
			if c.PlanOnly {
				return
			}
			c.Inc("entry:" + e.Name)
			c.Inc("container:" + gen.ContainerNames[kind])
			if rc.Panic != nil || rr.Panic != nil {
				c.Inc("probe:panic-seen-(C01's subject)")
				if rc.Panic != nil && rr.Panic == nil {
					c.Fail("mismatch", e.Name, gen.ContainerNames[kind]+":panic", "container decode panicked, bare TIFF decode did not: "+rc.Panic.Value)
				}
				return
			}
			skip := map[string]bool{"Exif.ImageType": true}
			if path, a, b := harness.Diff(rc.Fields, rr.Fields, skip); path != "" {
				c.Fail("mismatch", e.Name, gen.ContainerNames[kind]+":"+path, fmt.Sprintf("field %s: in %s %s, in bare TIFF %s (errors: %s / %s)", path, gen.ContainerNames[kind], a, b, rc.Err, rr.Err))
				return
			}
			if rc.ErrNil != rr.ErrNil {
				c.Fail("mismatch", e.Name, gen.ContainerNames[kind]+":error", fmt.Sprintf("error in %s: %s, in bare TIFF: %s", gen.ContainerNames[kind], rc.Err, rr.Err))
				return
			}
			// (a Nikon maker note makes the file a NEF whatever contains it: the type then follows
			// the payload, not the container, and only the relation above is judged)
			nikon := len(rec.MakerNote) > 5 && string(rec.MakerNote[:5]) == "Nikon"
			expType := containerType[kind]
			if cand.emb.AVIF {
				expType = imagetype.ImageAVIF
			}
			if got, exp := rc.Fields.Get("Exif.ImageType"), wantType(rec, expType); got != exp && rc.ErrNil && !nikon {
				c.Fail("mismatch", e.Name, gen.ContainerNames[kind]+":Exif.ImageType", fmt.Sprintf("image type %s, want %s", got, exp))
				return
			}
			if path, _, _ := modelDiff(rr, model.ExpectExif(rec)); path != "" {
				c.Inc("probe:equal_but_both_differ_from_model")
			}
			c.NonTrivial = rec.FieldCount() >= 3 && rc.ErrNil && rr.ErrNil
			// same payload, other surroundings, same container
			if cfg.Chance(1, 2) {
				other := &embedCase{rec: rec, kind: kind, lys: cand.lys, okLimit: true}
				other.emb = gen.EmbedX(g, c.L("emb:x"), kind, encodeParts(cand.lys, false), true, c.L("emb:y"))
				ro := decodeFile(c, e, other.file(big))
				c.Inc("probe:other-surroundings-compared")
				differs := ro.Panic != nil || ro.Canon() != rc.Canon()
				if differs && (nikon || other.emb.AVIF != cand.emb.AVIF) && ro.Panic == nil && ro.Err == rc.Err {
					// the image type of a Nikon payload follows the maker note, not the container (see
					// above): it is left out of this comparison as well
					if p, _, _ := harness.Diff(rc.Fields, ro.Fields, skip); p == "" {
						differs = false
					}
				}
				if differs {
					path, a, b := harness.Diff(rc.Fields, ro.Fields, nil)
					c.Fail("mismatch", e.Name, gen.ContainerNames[kind]+":surroundings:"+path, fmt.Sprintf("same payload, different surroundings: %s vs %s (err %s / %s)", a, b, rc.Err, ro.Err))
					if c.Describe && len(other.emb.Bytes) <= 700 {
						c.Descf("other container hex=%x", other.file(big))
					}
				}
			}
		},
	}}
	Register(p)

	p = &Prop{
		ID:    "C07",
		Level: "exploration",
		Rule: "cases = seeded (record, layout, container, surroundings, entry point), each encoded twice (II and MM) with identical layout; non-trivial = >= 3 fields and both decodes without error; " +
			"distinct = distinct run digests",
		QuickSec: 40, ThoroughSec: 480,
		Assumptions: []string{
			"verdict is purely relational (II result vs MM result, value and error)",
			"both serialisations share every offset, embedded/out-of-line decision and all surrounding bytes",
		},
	}
	p.Campaigns = []*Campaign{{
		Name: "byteorder", Weight: 1,
		N: func(tier string, seed uint64) uint64 {
			if tier == "thorough" {
				return 12000000
			}
			return 250000
		},
		Run: func(c *Ctx) {
			g := c.L("gen")
			cfg := c.L("cfg")
			rec := gen.DrawRecord(g, 1500)
			kind := cfg.Intn(5)
			o := opts
			o.Foreign = 12
			alt := gen.DrawAlt(c.L("gen:x"))
			gen.DrawAltDegenerate(c.L("gen:y"), &alt)
			if alt.ShortText != 0 {
				c.Inc("probe:date/offset/sub-second texts short enough for the slot")
			}
			if alt != (gen.Alt{}) {
				c.Inc("probe:alternative-encodings (LONG for SHORT, ISO x2, slot padding)")
			}
			c.Descf("alt encodings: %+v", alt)
			if c.L("gen:y").Chance(1, 12) {
				rec.DNG = true
			}
			nikonNote(c, rec)
			ec := drawEmbedCase(c, g, kind, rec, o, g.Bool(), alt)
			if !ec.okLimit {
				return
			}
			names := containerEntries[kind]
			e := harness.EntryByName(names[cfg.Intn(len(names))])
			describeRecord(c, rec, nil)
			c.Descf("container=%s entry=%s filelen=%d", gen.ContainerNames[kind], e.Name, len(ec.emb.Bytes))
			fII, fMM := ec.file(false), ec.file(true)
			if c.Describe && len(fII) <= 700 {
				c.Descf("II hex=%x", fII)
				c.Descf("MM hex=%x", fMM)
			}
			rII := decodeFile(c, e, fII)
			rMM := decodeFile(c, e, fMM)
			if c.PlanOnly {
				return
			}
			c.Inc("entry:" + e.Name)
			c.Inc("container:" + gen.ContainerNames[kind])
			// small-slot probes: values living in the 4-byte offset slot
			for _, ly := range ec.lys {
				if ly == nil {
					continue
				}
				for _, s := range ly.SlotProbes() {
					c.Inc("probe:slot:" + s)
				}
			}
			if rII.Panic != nil || rMM.Panic != nil {
				c.Inc("probe:panic-seen-(C01's subject)")
				if (rII.Panic == nil) != (rMM.Panic == nil) {
					c.Fail("mismatch", e.Name, gen.ContainerNames[kind]+":panic", "one byte order panics, the other does not")
				}
				return
			}
			if rII.Canon() != rMM.Canon() {
				path, a, b := harness.Diff(rII.Fields, rMM.Fields, nil)
				if path == "" {
					path = "error"
				}
				c.Fail("mismatch", e.Name, gen.ContainerNames[kind]+":"+path, fmt.Sprintf("%s: II %s, MM %s (errors: %s / %s)", path, a, b, rII.Err, rMM.Err))
				return
			}
			if path, _, _ := modelDiff(rII, model.ExpectExif(rec)); path != "" {
				c.Inc("probe:equal_but_both_differ_from_model")
			}
			c.NonTrivial = rec.FieldCount() >= 3 && rII.ErrNil && rMM.ErrNil
		},
	}}
	Register(p)
}

// nikonNote (side lane) turns the record into a Nikon file with a type-3 maker note whose nested
// TIFF block carries its own byte-order mark: the blob is identical in both encodings of the
// record, so whatever the library derives from it must be identical too.
func nikonNote(c *Ctx, rec *gen.Record) {
	if y := c.L("gen:y"); rec.MakerNote == nil && y.Chance(1, 12) {
		// a maker note of 1..4 bytes lives in the slot like any short UNDEFINED value (the camera
		// makes whose notes the library follows as directories are the interesting ones)
		mk := []string{"Canon", "NIKON CORPORATION", "SONY", "Apple"}[y.Intn(4)]
		rec.Make = &mk
		rec.MakerNote = y.Sub().Bytes(1 + y.Intn(4))
		if y.Bool() && mk != "Canon" {
			// ... or is shorter than the 18-byte header a Nikon note begins with (not for Canon, whose
			// note is a directory in the byte order of the file: the same bytes in an II and an MM
			// file are not the same note)
			rec.MakerNote = y.Sub().Bytes(5 + y.Intn(14))
		}
		c.Inc("probe:maker-note-that-fits-the-slot")
		return
	}
	x := c.L("gen:x")
	if !x.Chance(1, 8) {
		return
	}
	mk := "NIKON CORPORATION"
	rec.Make = &mk
	rec.MakerNote = gen.NikonMakerNote(x.Bool(), core.NewSplitMix(x.U64()|1))
	c.Inc("probe:nikon-makernote-with-own-byte-order")
}
