package props

import (
	"fmt"
	"math"
	"strconv"
	"strings"

	"github.com/evanoberholster/imagemeta/xmp"

	"verifsim/gen"
	"verifsim/harness"
)

// C13 — XMP properties are extracted exactly, in attribute or element form alike
// (DESIGN §5 C13). G: property record -> serialisation choices -> parse == record, and the
// all-attribute twin == the all-element twin. S: the tokenizer's look-ahead grows 128 -> 256 ->
// ...; values are clustered at those steps and the delivery schedule (piece ends, data+EOF)
// and reader kind (own 1538-byte bufio vs adopted harness bufio vs the LimitedReader / box view
// handed by the JPEG and CR3 scanners) vary under them.

var zeroXMP = harness.CanonAny("XMP", xmp.XMP{})

// xmpFields extracts the "XMP." paths of a result.
func xmpFields(res *harness.Result) *harness.Fields {
	f := &harness.Fields{}
	for i, k := range res.Fields.K {
		if strings.HasPrefix(k, "XMP.") || k == "XMP" {
			f.K = append(f.K, k)
			f.V = append(f.V, res.Fields.V[i])
		}
	}
	return f
}

func floatMatches(got string, want float64, bits int) bool {
	v, err := strconv.ParseUint(got, 16, 64)
	if err != nil {
		return false
	}
	if bits == 32 {
		g, w := math.Float32frombits(uint32(v)), float32(want)
		// one unit in the last place (single- vs double-rounded quotient)
		return g == w || math.Nextafter32(g, w) == w
	}
	return math.Float64frombits(v) == want
}

// judgeXMP compares the parsed fields with the record. lenient (a token exceeded the window):
// every field equals the record's value or is the zero value, never anything else.
func judgeXMP(c *Ctx, entry string, rec *gen.XRecord, f *harness.Fields, lenient bool, what string) bool {
	expected := map[string]string{}
	for _, p := range rec.Props {
		if p.Array != "" {
			zeroLen := f.Get(p.Path+".len") == "0"
			if lenient && zeroLen {
				expected[p.Path+".len"] = "0"
				continue
			}
			if g := f.Get(p.Path + ".len"); g != strconv.Itoa(len(p.Items)) {
				if lenient {
					// a truncated parse may hold a prefix of the items
					n, _ := strconv.Atoi(g)
					if n <= len(p.Items) {
						ok := true
						for i := 0; i < n; i++ {
							if f.Get(fmt.Sprintf("%s[%d]", p.Path, i)) != strconv.Quote(p.Items[i]) {
								ok = false
							}
							expected[fmt.Sprintf("%s[%d]", p.Path, i)] = ""
						}
						expected[p.Path+".len"] = ""
						if ok {
							continue
						}
					}
				}
				c.Fail("mismatch", entry, p.Path+".len", fmt.Sprintf("%s:%s has %d items in document order, the parser reports %s; %s", p.NS, p.Name, len(p.Items), g, what))
				return false
			}
			expected[p.Path+".len"] = ""
			for i, it := range p.Items {
				k := fmt.Sprintf("%s[%d]", p.Path, i)
				expected[k] = ""
				if g := f.Get(k); g != strconv.Quote(it) {
					c.Fail("mismatch", entry, p.Path, fmt.Sprintf("%s:%s item %d is %q, the parser reports %s; %s", p.NS, p.Name, i, it, clip(g), what))
					return false
				}
			}
			continue
		}
		expected[p.Path] = ""
		if p.NoJudge {
			continue
		}
		g := f.Get(p.Path)
		ok := false
		if p.IsF {
			ok = floatMatches(g, p.WantF, p.Bits)
		} else {
			ok = g == p.Want
		}
		if !ok && (lenient || p.Long) && g == zeroXMP.Get(p.Path) {
			ok = true
		}
		if !ok {
			w := p.Want
			if p.IsF {
				w = fmt.Sprintf("%g (%d-bit)", p.WantF, p.Bits)
			}
			c.Fail("mismatch", entry, p.Path, fmt.Sprintf("%s:%s is written as %q (len %d); the parser reports %s, expected %s; %s", p.NS, p.Name, clip(p.Val), len(p.Val), clip(g), clip(w), what))
			return false
		}
	}
	// absent properties are zero values
	for i, k := range f.K {
		if _, ok := expected[k]; ok {
			continue
		}
		if z := zeroXMP.Get(k); f.V[i] != z {
			if strings.Contains(k, "[") { // array element paths do not exist in the zero value
				base := k[:strings.Index(k, "[")]
				if _, ok := expected[base+".len"]; ok {
					continue
				}
			}
			c.Fail("mismatch", entry, "absent:"+k, fmt.Sprintf("the packet does not hold %s, the parser reports %s; %s", k, clip(f.V[i]), what))
			return false
		}
	}
	return true
}

func clip(s string) string {
	if len(s) > 90 {
		return s[:90] + "..."
	}
	return s
}

func c13Run(c *Ctx) {
	g := c.L("gen")
	cfg := c.L("cfg")
	long := g.Chance(1, 10)
	gen.XDateExtra = c.L("gen:y")
	rec := gen.DrawXRecord(g, long)
	gen.XDateExtra = nil
	hasLong := false
	for _, p := range rec.Props {
		if p.Long {
			hasLong = true
		}
	}
	style := gen.DrawXStyle(c.L("style"))
	style.EqSpace = c.L("style:x").Chance(1, 4)
	if z := c.L("style:z"); z.Chance(1, 5) {
		style.RootEnd = 1 + z.Intn(16)
	}
	if z := c.L("style:z"); z.Chance(1, 4) {
		style.Unprefixed = 1 + z.Intn(15)
	}
	if y := c.L("style:y"); y.Chance(1, 4) {
		style.AttrPad = []int{40, 130, 260, 600, 1300, 1530}[y.Intn(6)]
	}
	c.Descf("style: %+v", style)
	pkt := rec.Serialise(g, style)
	container := cfg.Intn(4) // 0,1: direct; 2: JPEG APP1; 3: CR3 xpacket
	if len(pkt) > 60000 {
		container = 0
	}
	rk := cfg.Intn(harness.NumRK)
	d := drawDelivery(c.L("dev:0"))
	var data []byte
	var e *harness.Entry
	switch container {
	case 2:
		j := gen.DrawJPEG(g, gen.JPEGOpts{XMP: [][]byte{pkt}, Max: 3})
		data, e = j.Bytes, harness.EntryByName("jpeg.ScanJPEG")
	case 3:
		var o gen.CR3Opts
		o.CMT[0] = gen.BuildTIFF(g, &gen.Record{}, gen.LayoutOpts{Canonical: true}).Encode(false).Bytes
		o.XMP = pkt
		data, e = gen.DrawCR3(g, o).Bytes, harness.EntryByName("isobmff.Reader")
	default:
		data, e = pkt, harness.EntryByName("xmp.ParseXmp")
	}
	var names []string
	for _, p := range rec.Props {
		n := p.NS + ":" + p.Name
		if p.Array != "" {
			n += fmt.Sprintf("[%s x%d]", p.Array, len(p.Items))
		} else {
			n += fmt.Sprintf("(%d)", len(p.Val))
		}
		names = append(names, n)
	}
	what := fmt.Sprintf("packet len=%d container=%d entry=%s reader=%s delivery=%s long=%v", len(pkt), container, e.Name, harness.RKNames[rk], d, hasLong)
	c.Descf("%s", what)
	c.Descf("properties: %s", strings.Join(names, " "))
	if c.Describe && len(pkt) <= 6000 {
		c.Descf("packet=%q", pkt)
	} else if c.Describe {
		// white-space runs written as {n}
		var sb strings.Builder
		for i := 0; i < len(pkt) && sb.Len() < 6000; {
			j := i
			for j < len(pkt) && (pkt[j] == ' ' || pkt[j] == '\n' || pkt[j] == '\t' || pkt[j] == '\r') {
				j++
			}
			if j-i > 8 {
				fmt.Fprintf(&sb, "{%d}", j-i)
				i = j
				continue
			}
			sb.WriteByte(pkt[i])
			i++
		}
		c.Descf("packet(white space folded)=%q", sb.String())
	}
	harness.LogDefault()
	// empty pools at the start of the run: what a run observes is a function of (seed, run) and
	// of nothing an earlier run of the same worker left in a pool (history is C04's subject)
	harness.GCPoint()
	c.Dev.Budget = c08Budget(len(data))
	r := newReader(c.Dev, data, Fault{}, d)
	res := invoke(c, e, &harness.Env{RK: rk}, r)
	if c.PlanOnly {
		return
	}
	c.Inc("entry:" + e.Name)
	if res.Panic != nil {
		if res.Panic.Class == "budget" {
			c.Fail("mismatch", e.Name, "no-return", "parsing a well-formed packet exceeded the device tick budget; "+what)
		} else {
			c.Fail("mismatch", e.Name, "panic:"+res.Panic.Func, "parsing a well-formed packet panicked: "+res.Panic.Value+"; "+what)
		}
		return
	}
	if res.XMP == nil {
		c.Fail("mismatch", e.Name, "no-packet", "the XMP packet embedded in the container was not parsed at all (err="+res.Err+"); "+what)
		return
	}
	f := xmpFields(res)
	if hasLong && container <= 1 && (rk == harness.RKBufio4096 || rk == harness.RKBufio8192 || rk == harness.RKBufio64K) {
		// the parser adopts the caller's bufio.Reader as its window: the planted value fits into it
		hasLong = false
		c.Inc("probe:long-value-inside-adopted-window")
	}
	if hasLong {
		c.Inc("probe:token-longer-than-window")
		if container <= 1 && res.ErrNil {
			// an error must be returned; which one is not asserted
			c.Fail("mismatch", e.Name, "long-token-no-error", "a value longer than the parser's window yielded no error; "+what)
			return
		}
		if !judgeXMP(c, e.Name, rec, f, true, what) {
			return
		}
		c.NonTrivial = true
		return
	}
	if !judgeXMP(c, e.Name, rec, f, false, what) {
		return
	}
	if container <= 1 && !res.ErrNil {
		// the packet is well-formed and every value was reported: the parse has nothing to
		// complain about either
		c.Fail("mismatch", e.Name, "error-on-well-formed-packet", "every property of a well-formed packet is reported exactly, but ParseXmp returned "+res.Err+"; "+what)
		return
	}
	c.NonTrivial = len(rec.Props) >= 3
	for _, p := range rec.Props {
		if p.Array == "" && (len(p.Val) >= 124 && len(p.Val) <= 133 || len(p.Val) >= 250 && len(p.Val) <= 261 || len(p.Val) >= 506 && len(p.Val) <= 517) {
			c.Inc("probe:value-at-look-ahead-step")
			break
		}
	}
	// form equivalence: all-attribute twin vs all-element twin (direct entry)
	if cfg.Chance(1, 3) {
		sa, se := style, style
		sa.AllAttr, se.AllElem = true, true
		pa, pe := rec.Serialise(g, sa), rec.Serialise(g, se)
		ep := harness.EntryByName("xmp.ParseXmp")
		if c.Describe && len(pa) <= 1500 {
			c.Descf("attr-twin=%q", pa)
			c.Descf("elem-twin=%q", pe)
		}
		harness.Pristine()
		ra := invoke(c, ep, &harness.Env{RK: rk}, newReader(c.Dev, pa, Fault{}, d))
		harness.Pristine()
		re := invoke(c, ep, &harness.Env{RK: rk}, newReader(c.Dev, pe, Fault{}, d))
		c.Inc("probe:attribute-vs-element-twin")
		if ra.Panic != nil || re.Panic != nil {
			c.Fail("mismatch", ep.Name, "twin-panic", "a form twin panicked; "+what)
			return
		}
		if !judgeXMP(c, ep.Name, rec, xmpFields(ra), false, "all-attribute twin; "+what) || !judgeXMP(c, ep.Name, rec, xmpFields(re), false, "all-element twin; "+what) {
			return
		}
		if path, a, b := harness.Diff(xmpFields(ra), xmpFields(re), nil); path != "" {
			c.Fail("mismatch", ep.Name, "form:"+path, fmt.Sprintf("attribute form gives %s, element form gives %s; %s", clip(a), clip(b), what))
		}
	}
}

func init() {
	p := &Prop{
		ID:    "C13",
		Level: "exploration",
		Rule: "a run is non-trivial when the record has >= 3 properties (or plants an over-long token) and every field was judged against the record; " +
			"distinct = distinct run digests (entry point, device counts, canonical parsed result)",
		QuickSec: 30, ThoroughSec: 400,
		Assumptions: []string{
			"supported simple properties generated: tiff Make/Model/ImageWidth/ImageLength/Orientation; exif PixelX/YDimension, DateTimeOriginal, ExposureTime, ExposureProgram, ExposureMode, MeteringMode (0..6), FNumber, FocalLength, SubjectDistance, ExposureBiasValue (numerator != 0), GPSLatitude/Longitude/Altitude as decimal literals; aux SerialNumber/LensInfo/Lens/LensSerialNumber/LensID/ImageNumber/FlashCompensation; xmp|xap CreateDate/MetadataDate/ModifyDate/CreatorTool/Label/Rating; xmpMM|xapMM DocumentID/OriginalDocumentID/InstanceID/PreservedFileName; crs RawFileName; dc creator(Seq)/subject(Bag)/rights(Alt)/description(Alt)",
			"values are ASCII without markup characters and without leading/trailing blanks; dates in the three layouts with Z, a non-zero +hh:mm, two fractional digits, or plain; UUIDs as xmp.did:/uuid:/xmp.iid: canonical/bare hex",
			"for well-formed packets the returned error is not asserted (the parser legitimately ends with io.EOF); with a token longer than the window an error is required on the direct entry and every field is the record's or zero",
			"the worker runs with TZ=UTC so that time.Parse's zone naming is fixed",
		},
	}
	p.Campaigns = []*Campaign{{
		Name: "packets", Weight: 1,
		N: func(tier string, seed uint64) uint64 {
			if tier == "thorough" {
				return 7000000
			}
			return 150000
		},
		Run: c13Run,
	}}
	Register(p)
}
