package props

import (
	"fmt"
	"io"

	"verifsim/core"
	"verifsim/gen"

	"verifsim/harness"
	"verifsim/world"
)

// C05 — concurrent calls on independent inputs are race-free and match sequential runs
// (DESIGN §5 C05). N tasks (real goroutines, serialised by world.Sched) each run 1..4 operations
// on their own reader; the sched lane decides which task runs at every device event.
//
// World A (plain build, GOMAXPROCS=1): every operation's canonical result must equal its solo
// result on pristine state; all tasks must finish. World B (-race build, GOMAXPROCS 1/4/16): the
// same schedules; the oracle is the happens-before race detector (a report kills the worker with
// exit 66 and is confirmed by solo replay) and the absence of fatal errors.

type c05Task struct {
	ops []*opCase
	dls []Delivery
	res []*harness.Result
	dev *world.Device
}

func c05Delivery(c *Ctx, name string) Delivery {
	l := c.L(name)
	d := drawDelivery(l)
	if d.Piece == world.PieceRandom {
		// per-call lane draws would be made from several goroutines; use a fixed odd size instead
		d.Piece, d.Const, d.Lane = world.PieceConst, 1+l.Intn(700), nil
	}
	return d
}

func c05Run(c *Ctx) {
	cfg := c.L("cfg")
	nt := 2 + cfg.Intn(7)
	if cfg.Chance(1, 6) {
		nt = 9 + cfg.Intn(24) // up to 32 tasks
	}
	den := []int{1, 2, 8, 32}[cfg.Intn(4)] // switch probability 1/den at every yield point
	tasks := make([]*c05Task, nt)
	for i := range tasks {
		t := &c05Task{dev: &world.Device{}}
		no := 1 + cfg.Intn(4)
		for j := 0; j < no; j++ {
			t.ops = append(t.ops, drawOp(c, c.L(fmt.Sprintf("task:%d:%d", i, j)), true))
			t.dls = append(t.dls, c05Delivery(c, fmt.Sprintf("dev:%d:%d", i, j)))
		}
		t.res = make([]*harness.Result, no)
		tasks[i] = t
	}
	sl := c.L("sched")
	const decisions = 768
	sw := make([]uint8, decisions)
	tg := make([]uint16, decisions)
	for i := range sw {
		if sl.Intn(den) == 0 && den > 0 {
			sw[i] = 1
		}
		if den == 1 {
			sw[i] = uint8(sl.Intn(2)) // den==1: still let 0 (= stay) be reachable for the minimiser
		}
		tg[i] = uint16(sl.Intn(nt))
	}
	for i, t := range tasks {
		for j, o := range t.ops {
			c.Descf("task %d op %d: %s delivery=%s", i, j, o, t.dls[j])
		}
	}
	c.Descf("tasks=%d switch-probability=1/%d", nt, den)
	if c.PlanOnly {
		c.PlanEntry = "concurrent"
		return
	}
	// the logger is configured before the tasks start (configuration is not concurrent with
	// decodes, but decodes under a non-default level are): level-guarded code paths - marshalers,
	// name lookups, caches behind them - then run concurrently too. The sink is io.Discard: it
	// is stateless, so the tasks share nothing the harness owns.
	harness.LogDefault()
	if lv := c.L("cfg:log").Intn(8); lv >= 4 {
		level := 1 + lv%4 // trace, debug, info, warn
		harness.LogConfigure(io.Discard, level)
		c.Inc("cfg.level:" + harness.LogLevelNames[level])
		defer harness.LogDefault()
	}
	// every run starts from empty pools, so that a run is a function of (seed, run index) and of
	// nothing an earlier run in the same worker left behind
	harness.GCPoint()
	// solo results (world A only): each operation alone on pristine state
	var solo [][]*harness.Result
	if !harness.RaceBuild {
		solo = make([][]*harness.Result, nt)
		for i, t := range tasks {
			solo[i] = make([]*harness.Result, len(t.ops))
			for j, o := range t.ops {
				harness.Pristine()
				d := &world.Device{Budget: c08Budget(len(o.data))}
				r := newReader(d, o.data, o.fault(), t.dls[j])
				solo[i][j] = harness.Invoke(o.e, o.spec.New(d), r)
			}
		}
	}
	harness.Pristine()
	sched := world.NewSched(nt, sw, tg)
	for i, t := range tasks {
		id := i
		t.dev.Yield = func(kind string) { sched.Yield(id) }
	}
	harness.SetSyncHooks(sched.SyncYield, sched.LockBlocked)
	defer harness.SetSyncHooks(nil, nil)
	sched.Run(func(id int) {
		t := tasks[id]
		for j, o := range t.ops {
			t.dev.Budget = t.dev.Seq + c08Budget(len(o.data))
			r := newReader(t.dev, o.data, o.fault(), t.dls[j])
			t.res[j] = harness.Invoke(o.e, o.spec.New(t.dev), r)
		}
	})
	// joined: fold and judge on the main goroutine
	for _, t := range tasks {
		c.Dev.Seq += t.dev.Seq
		for j, r := range t.res {
			c.D.Str(t.ops[j].e.Name)
			if !harness.RaceBuild { // the race build's sync.Pool drops Puts at random: results are world A's subject
				if r.Panic != nil {
					c.D.Str("panic:" + r.Panic.Class + ":" + r.Panic.Func)
				} else {
					c.D.Str(r.Canon())
				}
			}
			c.Inc("entry:" + t.ops[j].e.Name)
		}
	}
	c.D.U64(sched.Digest)
	c.Sched = sched.Digest
	c.St.C["sched:events"] += sched.Events
	c.St.C["sched:switches"] += sched.Switches
	c.St.C["sched:sync-points"] += sched.SyncEvents
	c.St.C["sched:lock-waits"] += sched.LockWaits
	c.St.C["sched:tasks"] += int64(nt)
	if sched.Switches > 0 {
		c.NonTrivial = true
	}
	c.Descf("yield points=%d switches=%d schedule-digest=%016x", sched.Events, sched.Switches, sched.Digest)
	if harness.RaceBuild {
		return
	}
	for i, t := range tasks {
		for j, r := range t.res {
			s := solo[i][j]
			if isBudget(s) || isBudget(r) {
				c.Inc("probe:tick-budget-exceeded (skipped)")
				continue
			}
			if s.Panic != nil {
				c.Inc("probe:panic-seen-(C01's subject)")
			}
			if site, detail := resultDiff(s, r); site != "" {
				c.Fail("mismatch", t.ops[j].e.Name, site, fmt.Sprintf("task %d op %d: alone vs among %d concurrent tasks (%d switches): %s", i, j, nt, sched.Switches, detail))
				return
			}
		}
	}
}

// coldInput builds a well-formed input for an entry point by its format hint, with zone offsets
// present (a cold zone cache is one of the lazily filled states).
func coldInput(c *Ctx, l *core.Lane, hint string) []byte {
	rec := gen.DrawRecord(l, 200)
	if rec.ModifyDate == nil {
		rec.ModifyDate = &gen.DateTime{Y: 2001, Mo: 2, D: 3, H: 4, Mi: 5, S: 6}
	}
	off := fmt.Sprintf("%c%02d:%02d", "+-"[l.Intn(2)], l.Intn(14), []int{0, 15, 30, 45}[l.Intn(4)])
	rec.Offset = &off
	tiff := gen.BuildTIFF(l, rec, gen.LayoutOpts{Foreign: 3}).Encode(l.Bool()).Bytes
	switch hint {
	case "jpeg":
		return gen.DrawJPEG(l, gen.JPEGOpts{Exif: [][]byte{tiff}, XMP: [][]byte{xmpPacket(l)}, Max: 3}).Bytes
	case "png":
		return gen.Embed(l, gen.CPNG, [][]byte{tiff}, true).Bytes
	case "cr3", "bmff":
		var o gen.CR3Opts
		o.CMT[0] = tiff
		o.XMP = xmpPacket(l)
		o.Preview = append([]byte{0xff, 0xd8, 0xff, 0xdb}, l.Sub().Bytes(600)...)
		return gen.DrawCR3(l, o).Bytes
	case "heif":
		return gen.DrawHEIF(l, tiff, true).Bytes
	case "xmp":
		return gen.DrawXRecord(l, false).Serialise(l, gen.DrawXStyle(l))
	}
	return gen.TIFFFile(l, tiff, true)
}

// c05Cold: four tasks make the process's first calls of one entry point at the same time (the
// campaign runs every case in a fresh worker process). Lazily initialised package state, cold
// caches and empty pools are touched concurrently here and nowhere else.
func c05Cold(c *Ctx) {
	nk := len(harness.Entries) + len(harness.HashNames)
	kind := int(c.Run) % nk
	const nt = 4
	tasks := make([]*c05Task, nt)
	for i := range tasks {
		l := c.L(fmt.Sprintf("task:%d:0", i))
		t := &c05Task{dev: &world.Device{}}
		var o *opCase
		if kind < len(harness.Entries) {
			e := harness.Entries[kind]
			o = &opCase{data: coldInput(c, l, e.Hint), name: "cold:" + e.Hint, e: e, trunc: -1}
		} else {
			fn := kind - len(harness.Entries)
			n := 64
			if fn == harness.HPHash256 || fn == harness.HPHash256Alt {
				n = 256
			}
			px, _ := gen.DrawPixels(l, n)
			img, _ := px.Materialise(l.Intn(gen.NumKinds), 0, 0, false, 0, core.NewSplitMix(l.U64()|1))
			o = &opCase{name: "cold:image", e: harness.HashEntry(fn, img), trunc: -1}
		}
		t.ops, t.dls, t.res = []*opCase{o}, []Delivery{{Piece: 1, Const: 64 + 61*i}}, make([]*harness.Result, 1)
		tasks[i] = t
		c.Descf("task %d: %s", i, o)
	}
	if c.PlanOnly {
		c.PlanEntry = "concurrent"
		return
	}
	// every yield switches: the four first calls are as interleaved as the device allows
	sw, tg := make([]uint8, 2048), make([]uint16, 2048)
	sl := c.L("sched")
	for i := range sw {
		sw[i], tg[i] = 1, uint16(sl.Intn(nt))
	}
	harness.LogDefault()
	if c.Run%3 == 2 {
		// a third of the cold starts run under the info level (first use of level-guarded code)
		harness.LogConfigure(io.Discard, 3)
		defer harness.LogDefault()
	}
	sched := world.NewSched(nt, sw, tg)
	for i, t := range tasks {
		id := i
		t.dev.Yield = func(kind string) { sched.Yield(id) }
	}
	harness.SetSyncHooks(sched.SyncYield, sched.LockBlocked)
	sched.Run(func(id int) {
		t := tasks[id]
		o := t.ops[0]
		t.dev.Budget = c08Budget(len(o.data))
		r := newReader(t.dev, o.data, o.fault(), t.dls[0])
		t.res[0] = harness.Invoke(o.e, o.spec.New(t.dev), r)
	})
	harness.SetSyncHooks(nil, nil)
	for _, t := range tasks {
		c.Dev.Seq += t.dev.Seq
		c.D.Str(t.ops[0].e.Name)
		c.Inc("entry:" + t.ops[0].e.Name)
	}
	c.D.U64(sched.Digest)
	c.Sched = sched.Digest
	c.Inc("probe:cold-start-first-calls-concurrent")
	c.NonTrivial = sched.Switches > 0
	if harness.RaceBuild {
		return
	}
	// world A: each first call, made concurrently, returns what it returns alone afterwards
	for i, t := range tasks {
		o := t.ops[0]
		harness.Pristine()
		d := &world.Device{Budget: c08Budget(len(o.data))}
		solo := harness.Invoke(o.e, o.spec.New(d), newReader(d, o.data, o.fault(), t.dls[0]))
		if isBudget(solo) || isBudget(t.res[0]) {
			continue
		}
		if site, detail := resultDiff(solo, t.res[0]); site != "" {
			c.Fail("mismatch", o.e.Name, "cold:"+site, fmt.Sprintf("task %d: first call of the process made concurrently vs the same call alone: %s", i, detail))
			return
		}
	}
}

func init() {
	p := &Prop{
		ID:    "C05",
		Level: "exploration",
		Rule: "a run is non-trivial when at least one task switch happened between two device events of different tasks (operations overlapped); " +
			"distinct = distinct run digests, which fold the schedule digest (sequence of running task ids), every operation's entry point and, in world A, its canonical result",
		QuickSec: 90, ThoroughSec: 900,
		Race:       true,
		HangKind:   "stall",
		SyncYields: true,
		Setup:      func(repo, tier string) error { return LoadSamples(repo) },
		Assumptions: []string{
			"scheduling points: every device event (Read/Seek/ReadAt, actor entry/exit) and - in the instrumented scratch copy the workers are built from (sim/yieldinst) - every synchronisation operation of the library (mutex, pool, atomic, WaitGroup calls); mutexes are acquired by TryLock with a forced hand-over, so a task never blocks with the baton in hand; code between two scheduling points is atomic in simulation; torn or reordered accesses are left to the happens-before detector",
			"a run that stalls with a task sitting in a blocking primitive the simulator does not intercept (channel, condition variable) is re-executed without the serialising scheduler and only noted when it finishes that way",
			"world A (plain build, GOMAXPROCS=1) judges results against solo runs on pristine state; world B (-race build, GOMAXPROCS 1/4/16 by worker) judges only the race detector and fatal errors, because the race build's sync.Pool drops Puts at random",
			"the scheduler's baton is a plain word in //go:norace functions: it adds no happens-before edge between tasks",
			"configuration writes (SetLogger) concurrent with decodes are outside the property and are not scheduled",
		},
	}
	n := func(tier string, seed uint64) uint64 {
		if tier == "thorough" {
			return 400000
		}
		return 24000
	}
	nCold := func(tier string, seed uint64) uint64 {
		k := uint64(len(harness.Entries) + len(harness.HashNames))
		if tier == "thorough" {
			return 16 * k
		}
		return 4 * k
	}
	p.Campaigns = []*Campaign{
		{Name: "cold", Phase: 0, Weight: 1, N: nCold, Run: c05Cold, Fresh: true},
		{Name: "schedules", Phase: 0, Weight: 8, N: n, Run: c05Run},
		{Name: "cold-race", Phase: 1, Weight: 1, N: nCold, Run: c05Cold, Fresh: true},
		{Name: "schedules-race", Phase: 1, Weight: 8, N: n, Run: c05Run},
	}
	p.RacePhases = []int{1}
	p.PhaseBudget = []int{50, 50}
	Register(p)
}
