package props

import (
	"crypto/sha1"
	"fmt"
	"os"
	"path/filepath"
	"sort"
	"strings"

	"verifsim/core"
	"verifsim/gen"
	"verifsim/harness"
	"verifsim/world"
)

// KV is the key/value store exported by phase-0 campaigns (meter runs) and read by later
// phases. Filled by the worker from the orchestrator's kv file.
var KV = map[string]string{}

// Sample is a real file of the repository's corpus (read-only seed corpus, never copied).
type Sample struct {
	Name string
	Data []byte
}

var Samples []Sample

// LoadSamples reads the real sample files from the repository (deduplicated by content).
func LoadSamples(repo string) error {
	if Samples != nil {
		return nil
	}
	var paths []string
	for _, pat := range []string{"testImages/*", "assets/*", "xmp/test/*.xmp", "isobmff/samples/*"} {
		m, _ := filepath.Glob(filepath.Join(repo, pat))
		paths = append(paths, m...)
	}
	sort.Strings(paths)
	seen := map[[20]byte]bool{}
	for _, p := range paths {
		if strings.HasSuffix(p, ".json") {
			continue
		}
		fi, err := os.Stat(p)
		if err != nil || fi.IsDir() {
			continue
		}
		b, err := os.ReadFile(p)
		if err != nil {
			return err
		}
		h := sha1.Sum(b)
		if seen[h] {
			continue
		}
		seen[h] = true
		rel, _ := filepath.Rel(repo, p)
		Samples = append(Samples, Sample{Name: rel, Data: b})
	}
	if len(Samples) < 10 {
		return fmt.Errorf("only %d sample files found under %s", len(Samples), repo)
	}
	return nil
}

// Fault is one end/fail point configuration.
type Fault struct {
	Kind     int // 0 none, 1 eof@k, 2 ueof@k, 3 eio@k sticky, 4 eio@k transient, 5 data+eof ending at k
	K        int
	SeekFail bool
	FlipAt   int64
	FlipOff  int
	FlipVal  byte
}

var FaultNames = []string{"none", "eof@k", "ueof@k", "eio@k", "eio@k-transient", "data+eof@k"}

// Delivery is one delivery schedule.
type Delivery struct {
	Piece    int
	Const    int
	DribbleN int
	DataEOF  bool
	Bounds   []int
	Lane     *core.Lane
}

var constSizes = []int{1, 2, 3, 5, 7, 8, 13, 64, 511, 512, 513, 1023, 1024, 1025, 4095, 4096, 4097}

// newReader builds the device handle for one operation.
func newReader(dev *world.Device, data []byte, f Fault, d Delivery) *world.SimReader {
	r := world.NewSimReader(dev, data)
	switch f.Kind {
	case 1:
		r.End = clampK(f.K, len(data))
	case 2:
		r.End, r.Kind = clampK(f.K, len(data)), world.EndUEOF
	case 3:
		r.End, r.Kind = clampK(f.K, len(data)), world.EndEIO
	case 4:
		r.End, r.Kind, r.Transient = clampK(f.K, len(data)), world.EndEIO, true
	case 5:
		r.End, r.DataEOF = clampK(f.K, len(data)), true
	}
	r.SeekFail = f.SeekFail
	r.FlipAt, r.FlipOff, r.FlipVal = f.FlipAt, f.FlipOff, f.FlipVal
	r.Piece, r.Const, r.DribbleN, r.Bounds, r.Lane = d.Piece, d.Const, d.DribbleN, d.Bounds, d.Lane
	if d.DataEOF {
		r.DataEOF = true
	}
	return r
}

func clampK(k, n int) int {
	if k < 0 {
		return 0
	}
	if k > n {
		return n
	}
	return k
}

// drawDelivery samples a delivery schedule from a lane (0 => whole delivery).
func drawDelivery(l *core.Lane) Delivery {
	var d Delivery
	switch l.Intn(5) {
	case 0:
		d.Piece = world.PieceWhole
	case 1:
		d.Piece = world.PieceConst
		d.Const = constSizes[l.Intn(len(constSizes))]
	case 2:
		d.Piece = world.PieceRandom
		d.Lane = l
	case 3:
		d.Piece = world.PieceDribble
		d.Const = 1 + l.Intn(8)
		d.DribbleN = 1 + l.Intn(64)
	case 4:
		d.Piece = world.PieceConst
		d.Const = 1 + l.Intn(40)
	}
	d.DataEOF = l.Bool()
	return d
}

func (d Delivery) String() string {
	names := []string{"whole", "const", "random", "dribble", "aligned"}
	s := names[d.Piece]
	if d.Piece == world.PieceConst || d.Piece == world.PieceDribble {
		s += fmt.Sprintf("(%d)", d.Const)
	}
	if d.Piece == world.PieceDribble {
		s += fmt.Sprintf("x%d", d.DribbleN)
	}
	if d.DataEOF {
		s += "+dataEOF"
	}
	return s
}

// interesting values for corrupted multi-byte fields
var flipVals = []uint64{0, 1, 0xff, 0xffff, 0xffffffff, 0x7fffffff, 0x80000000, 2, 7, 8, 9, 12, 84, 85, 128, 129, 1024, 1025, 4096, 65535, 65536}

// applyFlips corrupts a copy of data with n lane-chosen stored-byte flips inside [0,hi).
func applyFlips(l *core.Lane, data []byte, hi int, desc func(string, ...interface{})) []byte {
	out := append([]byte(nil), data...)
	if hi > len(out) {
		hi = len(out)
	}
	if hi <= 0 {
		return out
	}
	n := 1 + l.Intn(4)
	for i := 0; i < n; i++ {
		var off int
		switch l.Intn(3) {
		case 0:
			off = l.Intn(hi)
		case 1:
			m := 512
			if m > hi {
				m = hi
			}
			off = l.Intn(m)
		default:
			m := 4096
			if m > hi {
				m = hi
			}
			off = l.Intn(m)
		}
		w := []int{1, 2, 4, 8}[l.Intn(4)]
		mode := l.Intn(4)
		var v uint64
		switch mode {
		case 0:
			v = flipVals[l.Intn(len(flipVals))]
		case 1: // +-1 of the current value
			cur := uint64(0)
			for j := 0; j < w && off+j < len(out); j++ {
				cur = cur<<8 | uint64(out[off+j])
			}
			if l.Bool() {
				v = cur + 1
			} else {
				v = cur - 1
			}
		case 2: // just past the end of the container
			v = uint64(len(out)-off) + uint64(l.Intn(3))
		default:
			v = l.U64()
		}
		le := l.Bool()
		for j := 0; j < w && off+j < len(out); j++ {
			if le {
				out[off+j] = byte(v >> (8 * uint(j)))
			} else {
				out[off+j] = byte(v >> (8 * uint(w-1-j)))
			}
		}
		if desc != nil {
			desc("flip off=%d width=%d value=%#x le=%v", off, w, v, le)
		}
	}
	return out
}

// magic prefixes for "valid magic followed by random bytes"
var magics = [][]byte{
	{0xff, 0xd8, 0xff, 0xe1},
	[]byte("II*\x00\x08\x00\x00\x00"),
	[]byte("MM\x00*\x00\x00\x00\x08"),
	[]byte("II*\x00\x10\x00\x00\x00CR\x02\x00"),
	[]byte("\x00\x00\x00\x18ftypcrx \x00\x00\x00\x01crx isom"),
	[]byte("\x00\x00\x00\x18ftypheic\x00\x00\x00\x00mif1heic"),
	[]byte("\x00\x00\x00\x1cftypavif\x00\x00\x00\x00avifmif1miaf"),
	[]byte("\x89PNG\r\n\x1a\n"),
	[]byte("<x:xmpmeta xmlns:x='adobe:ns:meta/'><rdf:RDF><rdf:Description "),
	[]byte("IIU\x00\x18\x00\x00\x00\x88\xe7\x74\xd8"),
	{0xff, 0xd8, 0xff, 0xe1, 0x00, 0x40, 'E', 'x', 'i', 'f', 0, 0, 'I', 'I', '*', 0, 8, 0, 0, 0},
}

// randomInput builds class (d): magic prefix + random bytes, or pure random bytes.
func randomInput(l *core.Lane) ([]byte, string) {
	kind := l.Intn(len(magics) + 1)
	n := 0
	switch l.Intn(4) {
	case 0:
		n = l.Intn(64)
	case 1:
		n = l.Intn(1024)
	case 2:
		n = l.Intn(8192)
	default:
		n = l.Intn(65536)
	}
	f := l.Sub()
	var b []byte
	name := "random"
	if kind > 0 {
		b = append(b, magics[kind-1]...)
		name = fmt.Sprintf("magic%d+random", kind-1)
	}
	// structured randomness: mostly small values so that counts/sizes look plausible
	style := l.Intn(3)
	for i := 0; i < n; i++ {
		x := f.Byte()
		switch style {
		case 1:
			if f.Intn(4) != 0 {
				x &= 0x0f
			}
		case 2:
			if f.Intn(3) == 0 {
				x = 0
			} else if f.Intn(5) == 0 {
				x = 0xff
			}
		}
		b = append(b, x)
	}
	return b, fmt.Sprintf("%s(len=%d,style=%d)", name, len(b), style)
}

// invoke runs one entry point on one device handle and folds the outcome into the digest.
func invoke(c *Ctx, e *harness.Entry, env *harness.Env, r *world.SimReader) *harness.Result {
	if c.PlanOnly {
		c.PlanEntry = e.Name
		return &harness.Result{Fields: &harness.Fields{}, Err: "<plan>"}
	}
	res := harness.Invoke(e, env, r)
	c.D.Str(e.Name)
	c.D.Int(int(r.Calls))
	c.D.Int(int(r.Delivered))
	if res.Panic != nil {
		c.D.Str("panic:" + res.Panic.Class + ":" + res.Panic.Func)
	} else {
		c.D.Str(res.Canon())
	}
	return res
}

// panicVerdict applies the C01 oracle to a result: a recovered panic (other than the
// simulator's own budget sentinel) is a violation.
func panicVerdict(c *Ctx, e *harness.Entry, res *harness.Result) bool {
	if res.Panic == nil {
		return false
	}
	if res.Panic.Class == "budget" {
		c.Inc("probe:tick-budget-exceeded")
		return false
	}
	c.Fail("panic", e.Name, res.Panic.Func+"/"+res.Panic.Class, res.Panic.Value+"\n"+res.Panic.Stack)
	return true
}

func tickBudget(n int) int64 { return 4096 + 8*int64(n) }

// EnvSpec is a drawn call environment that can be instantiated several times identically
// (differential runs).
type EnvSpec struct {
	RK              int
	NilCB           bool
	UseActors       int // 0 real library callbacks, 1 all actors, 2 xmp actor only
	Exif, Xmp, Prev ActorSpec
}

func drawEnvSpec(l *core.Lane, e *harness.Entry) EnvSpec {
	var s EnvSpec
	if !e.NeedSeek {
		s.RK = l.Intn(harness.NumRK)
	}
	if e.Name == "jpeg.ScanJPEG" || e.Name == "isobmff.Reader" {
		switch l.Intn(4) {
		case 1:
			s.NilCB = true
		case 2:
			s.UseActors = 1
			s.Exif, s.Xmp, s.Prev = drawActorSpec(l), drawActorSpec(l), drawActorSpec(l)
			// the property's premise: the Exif callback consumes its declared length
			s.Exif.Mode = 0
			s.Exif.RetErr = false
		case 3:
			s.UseActors = 2
			s.Xmp = drawActorSpec(l)
		}
	}
	return s
}

func (s EnvSpec) New(dev *world.Device) *harness.Env {
	env := &harness.Env{RK: s.RK, NilCB: s.NilCB}
	switch s.UseActors {
	case 1:
		env.ExifActor, env.XmpActor, env.PrevActor = s.Exif.New(dev, "exif"), s.Xmp.New(dev, "xmp"), s.Prev.New(dev, "prev")
	case 2:
		env.XmpActor = s.Xmp.New(dev, "xmp")
	}
	return env
}

func (s EnvSpec) String() string {
	out := "reader=" + harness.RKNames[s.RK]
	if s.NilCB {
		out += " callbacks=nil"
	}
	if s.UseActors == 1 {
		out += fmt.Sprintf(" actors exif=%s xmp=%s prev=%s", s.Exif, s.Xmp, s.Prev)
	}
	if s.UseActors == 2 {
		out += fmt.Sprintf(" actor xmp=%s", s.Xmp)
	}
	return out
}

// sampleXMP returns one of the repository's XMP sample packets (nil if none).
func sampleXMP(l *core.Lane) []byte {
	var xs [][]byte
	for _, s := range Samples {
		if len(s.Name) > 4 && s.Name[len(s.Name)-4:] == ".xmp" {
			xs = append(xs, s.Data)
		}
	}
	if len(xs) == 0 {
		return nil
	}
	return xs[l.Intn(len(xs))]
}

var aliasOffsets = []string{"+00:00", "-00:00", "+01:00", "+00:60", "+02:00", "+01:60", "-02:00", "-01:60"}

// generatedInput draws class (b): a well-formed generated file of some container, with the
// layout map of its size/count fields where the generator has one.
func generatedInput(c *Ctx, l *core.Lane) (data []byte, name string, fmap []gen.FieldSpan) {
	rec := gen.DrawRecord(l, 1500)
	kind := l.Intn(7)
	opts := gen.LayoutOpts{Foreign: 10, IFD1: true}
	// knobs added after the first replays were committed live on a side lane, so that the main
	// lane's traces (and with them the committed replay files) keep their meaning
	x := c.L(l.Name + ":x")
	if x.Chance(1, 12) {
		// beyond the documented limits: up to 200 further tags in one directory
		opts.Bulk = 40 + x.Intn(160)
	}
	if x.Chance(1, 6) {
		// arbitrary zone-offset texts of the right shape (sign, two bytes, ':', two bytes): what
		// a decode keeps per text or per offset must stay bounded
		for _, p := range []**string{&rec.Offset, &rec.OffsetOrig, &rec.OffsetDig} {
			if *p != nil {
				f := x.Sub()
				t := string([]byte{"+-"[f.Intn(2)], 0x21 + byte(f.Intn(94)), 0x21 + byte(f.Intn(94)), ':', 0x21 + byte(f.Intn(94)), 0x21 + byte(f.Intn(94))})
				*p = &t
			}
		}
	} else if x.Chance(1, 5) {
		// zone-offset texts from a small set in which several texts denote the same offset
		// ("+00:00"/"-00:00", "+02:00"/"+01:60"): what one decode caches per offset must not name
		// another decode's zone
		for _, p := range []**string{&rec.Offset, &rec.OffsetOrig, &rec.OffsetDig} {
			if *p != nil {
				t := aliasOffsets[x.Intn(len(aliasOffsets))]
				*p = &t
			}
		}
	}
	big := l.Bool()
	switch kind {
	case 5: // JPEG with Exif + XMP segments
		ly := gen.BuildTIFF(l, rec, opts)
		enc := ly.Encode(big)
		if len(enc.Bytes) > 65000 {
			return gen.TIFFFile(l, enc.Bytes, true), "gen:TIFF", enc.Map
		}
		o := gen.JPEGOpts{Exif: [][]byte{enc.Bytes}, Max: 6}
		if x := sampleXMP(l); x != nil && len(x) < 60000 {
			o.XMP = [][]byte{x}
		}
		j := gen.DrawJPEG(l, o)
		for _, s := range j.Segs {
			fmap = append(fmap, gen.FieldSpan{Name: "seg.len", Off: s.Off + 2, Len: 2})
			if s.Len > 0 {
				fmap = append(fmap, gen.FieldSpan{Name: "end:seg", Off: s.Off + 2 + s.Len, Len: 0})
			}
			if s.Kind == "exif" {
				for _, m := range enc.Map {
					fmap = append(fmap, gen.FieldSpan{Name: m.Name, Off: m.Off + s.DataOff, Len: m.Len})
				}
			}
		}
		return j.Bytes, "gen:JPEG+XMP", fmap
	case 6: // CR3 with XMP and preview
		l1, l2, l4 := gen.BuildSplit(l, rec, opts)
		var o gen.CR3Opts
		o.CMT[0] = l1.Encode(big).Bytes
		if l2 != nil {
			o.CMT[1] = l2.Encode(big).Bytes
		}
		if l4 != nil {
			o.CMT[3] = l4.Encode(big).Bytes
		}
		if l.Bool() {
			// a small maker-note directory (CMT3) with embedded values only
			o.CMT[2] = gen.DrawLayout(l, &gen.Dir{Name: "MkNote", Entries: []*gen.Entry{{ID: 1, Type: gen.TShort, Count: 1, Shorts: []uint16{uint16(l.Intn(9))}}, {ID: 2, Type: gen.TLong, Count: 1, Longs: []uint32{uint32(l.Intn(99))}}}}, gen.LayoutOpts{Canonical: true}).Encode(big).Bytes
		}
		o.XMP = sampleXMP(l)
		o.Preview = append([]byte{0xff, 0xd8, 0xff, 0xdb}, l.Sub().Bytes(l.Intn(9000))...)
		o.Surround, o.Use64 = l.Bool(), l.Bool()
		o.Tail = c.L(l.Name + ":x").Intn(3)
		o.Brands = c.L(l.Name + ":x").Intn(12)
		o.BrandsNoMajor = c.L("gen:y").Chance(1, 3)
		if y := c.L("gen:y"); y.Chance(1, 3) {
			o.Top64 = 1 + y.Intn(7)
		}
		if y := c.L("gen:y"); y.Chance(1, 4) {
			o.CTBO = 1 + y.Intn(15)
		}
		cr := gen.DrawCR3(l, o)
		return cr.Bytes, "gen:CR3+XMP+PRVW", cr.Map
	default:
		var parts [][]byte
		var emap []gen.FieldSpan
		if kind == gen.CCR3 {
			l1, l2, l4 := gen.BuildSplit(l, rec, opts)
			parts = encodeParts([]*gen.Layout{l1, l2, l4}, big)
		} else {
			ly := gen.BuildTIFF(l, rec, opts)
			enc := ly.Encode(big)
			if kind == gen.CJPEG && len(enc.Bytes) > 65000 {
				kind = gen.CTIFF
			}
			parts = [][]byte{enc.Bytes}
			emap = enc.Map
		}
		if y := c.L("gen:y"); kind == gen.CHEIF && y.Chance(1, 6) {
			// HEIF whose item-location box is the last thing in meta and ends inside its last entry
			h := gen.DrawHEIFOpts(l, parts[0], l.Bool(), gen.HEIFOpts{IlocLastCut: 1 + y.Intn(12)})
			fmap = append(fmap, h.Map...)
			return h.Bytes, "gen:HEIF", fmap
		}
		if kind == gen.CHEIF && x.Chance(1, 3) {
			// HEIF with redundant iloc boxes and a long brand list
			h := gen.DrawHEIFOpts(l, parts[0], l.Bool(), gen.HEIFOpts{ExtraIloc: 1 + x.Intn(6), Brands: x.Intn(12), InfeVariants: x.Intn(5), InfeVersions: infeVersions(c.L("gen:y")), Iref: c.L("gen:y").Bool(), IrefBad: c.L("gen:y").Chance(1, 3)})
			fmap = append(fmap, h.Map...)
			for _, m := range emap {
				fmap = append(fmap, gen.FieldSpan{Name: m.Name, Off: m.Off + h.TIFFOff, Len: m.Len})
			}
			return h.Bytes, "gen:HEIF", fmap
		}
		em := gen.EmbedX(l, c.L("emb:x"), kind, parts, l.Bool(), c.L("emb:y"))
		fmap = append(fmap, em.Map...)
		if len(em.Parts) == 1 && em.Parts[0].Start >= 0 {
			for _, m := range emap {
				fmap = append(fmap, gen.FieldSpan{Name: m.Name, Off: m.Off + em.Parts[0].Start, Len: m.Len})
			}
		}
		return em.Bytes, "gen:" + gen.ContainerNames[kind], fmap
	}
}

// structFlips corrupts size/count/offset/type fields named by the layout map: 0, 1, max, +-1,
// a value just past the end of the container, or random.
func structFlips(l *core.Lane, data []byte, fmap []gen.FieldSpan, desc func(string, ...interface{})) []byte {
	out := append([]byte(nil), data...)
	if len(fmap) == 0 {
		return applyFlips(l, data, len(data), desc)
	}
	n := 1 + l.Intn(3)
	for i := 0; i < n; i++ {
		f := fmap[l.Intn(len(fmap))]
		if f.Off < 0 || f.Off+f.Len > len(out) || f.Len > 8 || f.Len == 0 {
			continue
		}
		var cur uint64
		for j := 0; j < f.Len; j++ {
			cur = cur<<8 | uint64(out[f.Off+j])
		}
		var v uint64
		switch l.Intn(7) {
		case 0:
			v = 0
		case 1:
			v = 1
		case 2:
			v = ^uint64(0)
		case 3:
			v = cur + 1
		case 4:
			v = cur - 1
		case 5:
			v = uint64(len(out)-f.Off) + uint64(l.Intn(9))
		default:
			v = flipVals[l.Intn(len(flipVals))]
		}
		le := l.Bool()
		for j := 0; j < f.Len; j++ {
			if le {
				out[f.Off+j] = byte(v >> (8 * uint(j)))
			} else {
				out[f.Off+j] = byte(v >> (8 * uint(f.Len-1-j)))
			}
		}
		if desc != nil {
			desc("flip field=%s off=%d len=%d value=%#x le=%v", f.Name, f.Off, f.Len, v, le)
		}
	}
	return out
}

// infeVersions (side lane): item-info versions for the further entries of a generated HEIF file;
// zero = all version 2.
func infeVersions(y *core.Lane) uint64 {
	if y.Bool() {
		return y.U64() | 1<<62
	}
	return 0
}
