package props

import (
	"fmt"
	"sort"

	"verifsim/core"
	"verifsim/gen"
	"verifsim/harness"
	"verifsim/world"
)

// opCase is one drawn operation: input bytes, entry point, call environment and (optionally) a
// clean truncation point. It can be executed any number of times identically, which is what the
// differential properties (C04, C05, C08, C15) need.
type opCase struct {
	data  []byte
	name  string
	fmap  []gen.FieldSpan
	e     *harness.Entry
	spec  EnvSpec
	trunc int // -1: none; else the stream is data[:trunc] (eof@k)
}

func (o *opCase) String() string {
	t := ""
	if o.trunc >= 0 {
		t = fmt.Sprintf(" eof@%d", o.trunc)
	}
	return fmt.Sprintf("input=%s len=%d%s entry=%s %s", o.name, len(o.data), t, o.e.Name, o.spec)
}

// held is the number of bytes the device holds for this operation.
func (o *opCase) held() int {
	if o.trunc >= 0 && o.trunc < len(o.data) {
		return o.trunc
	}
	return len(o.data)
}

func (o *opCase) fault() Fault {
	if o.trunc >= 0 {
		return Fault{Kind: 1, K: o.trunc}
	}
	return Fault{}
}

// sampleCap bounds how much of a multi-megabyte real sample is fed to differential properties:
// the metadata of every sample ends well inside the first 512 KiB and each differential case
// decodes its input several times under fine-grained deliveries.
const sampleCap = 768 << 10

func entryFor(l *core.Lane, name string) *harness.Entry {
	names := entriesByContainer[name]
	if len(names) > 0 && !l.Chance(1, 4) {
		return harness.EntryByName(names[l.Intn(len(names))])
	}
	return harness.Entries[l.Intn(len(harness.Entries))]
}

var sampleEntryByExt = map[string][]string{
	".jpg":  {"Decode", "DecodeJPEG", "jpeg.ScanJPEG"},
	".JPG":  {"Decode", "DecodeJPEG", "jpeg.ScanJPEG"},
	".jpeg": {"Decode", "DecodeJPEG", "jpeg.ScanJPEG"},
	".CR3":  {"Decode", "DecodeCR3", "PreviewCR3", "isobmff.Reader"},
	".cr3":  {"Decode", "DecodeCR3", "PreviewCR3", "isobmff.Reader"},
	".avif": {"Decode", "DecodeHeif", "isobmff.Reader"},
	".heic": {"Decode", "DecodeHeif", "isobmff.Reader"},
	".HEIC": {"Decode", "DecodeHeif", "isobmff.Reader"},
	".exif": {"Decode", "DecodeTiff", "exif2.Parse", "DecodeCR2", "tiff.ScanTiffHeader", "DecodeHeif"},
	".xmp":  {"xmp.ParseXmp"},
	".png":  {"DecodePng", "png.ScanPngHeader"},
}

func sampleEntry(l *core.Lane, name string) *harness.Entry {
	ext := ""
	for i := len(name) - 1; i >= 0 && name[i] != '/'; i-- {
		if name[i] == '.' {
			ext = name[i:]
			break
		}
	}
	if names := sampleEntryByExt[ext]; len(names) > 0 && !l.Chance(1, 4) {
		return harness.EntryByName(names[l.Intn(len(names))])
	}
	return harness.Entries[l.Intn(len(harness.Entries))]
}

// drawOp draws one operation. Input classes: real sample, generated well-formed file, generated
// + structure-aware flips, sample + flips, magic/random bytes; optionally truncated (failing
// inputs matter to the differential properties because they say "same value *and error*").
// With an all-zero lane: the first sample, entry Decode, no truncation.
func drawOp(c *Ctx, l *core.Lane, failing bool) *opCase {
	o := &opCase{trunc: -1}
	class := l.Intn(6)
	if !failing && (class == 2 || class == 3 || class == 4) {
		class = 1
	}
	// hash calls stand in histories and task lists next to decodes (side lane: traces of cases
	// recorded before hash calls existed keep their meaning)
	if x := c.L(l.Name + ":h"); x.Chance(1, 7) {
		hc := drawHashCall(c, x)
		fn := hc.fn
		if hc.img != nil && x.Chance(1, 4) {
			// the size-agnostic hashes of the package on the same image (differential properties
			// only; they have no reference model here)
			fn = harness.HAHash + x.Intn(2)
		}
		o.e = harness.HashEntry(fn, hc.img)
		o.name = "image:" + hc.desc
		c.Inc("input-class:hash")
		return o
	}
	switch class {
	case 0, 3:
		s := Samples[l.Intn(len(Samples))]
		o.data, o.name = s.Data, s.Name
		if len(o.data) > sampleCap {
			o.data = o.data[:sampleCap]
		}
		o.e = sampleEntry(l, s.Name)
		if class == 3 {
			hi := len(o.data)
			if hi > 65536 {
				hi = 65536
			}
			o.data = applyFlips(l, o.data, hi, c.Descf)
			o.name += "+flips"
		}
	case 1, 2, 5:
		var name string
		o.data, name, o.fmap = generatedInput(c, l)
		o.name = name
		o.e = entryFor(l, name)
		if class == 2 {
			o.data = structFlips(l, o.data, o.fmap, c.Descf)
			o.name += "+structflips"
		}
	case 4:
		o.data, o.name = randomInput(l)
		o.e = harness.Entries[l.Intn(len(harness.Entries))]
	}
	if failing && l.Chance(1, 4) {
		o.trunc = biasedK(l, len(o.data))
		// half of the truncations end the stream exactly at (or one byte around) a structure
		// boundary of the layout map: the end of a box, segment, chunk or value
		if b := boundsFromMap(o.fmap, len(o.data)); len(b) > 0 && l.Bool() {
			o.trunc = b[l.Intn(len(b))]
		}
	}
	o.spec = drawEnvSpec(l, o.e)
	c.Inc(fmt.Sprintf("input-class:%d", class))
	return o
}

// run executes the operation once on a fresh device handle with the given delivery.
func (o *opCase) run(c *Ctx, d Delivery) (*harness.Result, *world.SimReader) {
	return o.runSeek(c, d, false)
}

// runSeek: with seekFail the device's Seek method fails (a pipe, a socket, a forward-only
// wrapper); entry points that take a plain io.Reader have no business calling it.
func (o *opCase) runSeek(c *Ctx, d Delivery, seekFail bool) (*harness.Result, *world.SimReader) {
	return o.runAt(c, d, seekFail, nil, false)
}

// runAt: the stream is the rest of a larger one - the device holds before++data and the caller
// has already taken the bytes of before (by reading, or with Seek) when it hands the reader over.
func (o *opCase) runAt(c *Ctx, d Delivery, seekFail bool, before []byte, seek bool) (*harness.Result, *world.SimReader) {
	f := o.fault()
	f.SeekFail = seekFail
	if len(before) > 0 {
		content := append(append([]byte(nil), before...), o.data...)
		if f.Kind != 0 {
			f.K += len(before)
		}
		r := newReader(c.Dev, content, f, d)
		env := o.spec.New(c.Dev)
		env.Prepos, env.PreposSeek = len(before), seek
		return invoke(c, o.e, env, r), r
	}
	r := newReader(c.Dev, o.data, f, d)
	env := o.spec.New(c.Dev)
	res := invoke(c, o.e, env, r)
	return res, r
}

// boundsFromMap derives structure-aligned piece ends from the layout map: every field start and
// end, each also shifted by one byte.
func boundsFromMap(fmap []gen.FieldSpan, n int) []int {
	set := map[int]bool{}
	for _, f := range fmap {
		for _, b := range []int{f.Off - 1, f.Off, f.Off + 1, f.Off + f.Len - 1, f.Off + f.Len, f.Off + f.Len + 1} {
			if b > 0 && b < n {
				set[b] = true
			}
		}
	}
	out := make([]int, 0, len(set))
	for b := range set {
		out = append(out, b)
	}
	sort.Ints(out)
	return out
}

// resultDiff compares two results of the same operation (value, error, panic) and returns a
// short site name and a description when they differ.
func resultDiff(a, b *harness.Result) (site, detail string) {
	switch {
	case a.Panic != nil && b.Panic != nil:
		if a.Panic.Class != b.Panic.Class || a.Panic.Func != b.Panic.Func {
			return "panic-site", fmt.Sprintf("panic %s in %s vs panic %s in %s", a.Panic.Class, a.Panic.Func, b.Panic.Class, b.Panic.Func)
		}
		return "", ""
	case a.Panic != nil || b.Panic != nil:
		p, side := a.Panic, "first"
		if p == nil {
			p, side = b.Panic, "second"
		}
		return "panic-one-sided", fmt.Sprintf("only the %s execution panics: %s in %s", side, p.Value, p.Func)
	}
	if a.Canon() == b.Canon() {
		return "", ""
	}
	if a.Err != b.Err {
		return "error", fmt.Sprintf("error %q vs %q", a.Err, b.Err)
	}
	path, av, bv := harness.Diff(a.Fields, b.Fields, nil)
	if len(av) > 200 {
		av = av[:200] + "..."
	}
	if len(bv) > 200 {
		bv = bv[:200] + "..."
	}
	return path, fmt.Sprintf("%s: %s vs %s", path, av, bv)
}
