package props

import (
	"bytes"
	"encoding/binary"
	"fmt"
	"strings"

	"verifsim/core"
	"verifsim/gen"
	"verifsim/harness"
	"verifsim/world"
)

// C10 — JPEG segment framing: callbacks get exactly their payload; scanning resumes
// (DESIGN §5 C10). The generator's segment table is the oracle; the simulator varies what the
// callback actors do with the reader they are handed, the delivery schedule and the reader kind.

// xmpPacket draws an opaque XMP packet: the scanner must not look inside, so besides a
// well-formed text packet the content may hold 0xFF bytes, marker look-alikes and nested
// SOI/EOI (a UTF-16 packet starts with FF FE).
func xmpPacket(l *core.Lane) []byte {
	head := []byte("<?xpacket begin='' id='W5M0MpCehiHzreSzNTczkc9d'?><x:xmpmeta xmlns:x='adobe:ns:meta/'><rdf:RDF xmlns:rdf='http://www.w3.org/1999/02/22-rdf-syntax-ns#'><rdf:Description rdf:about='' xmlns:tiff='http://ns.adobe.com/tiff/1.0/' tiff:Make='SimCam'/></rdf:RDF></x:xmpmeta>")
	var p []byte
	switch l.Intn(3) {
	case 0:
		p = append(p, head...)
		p = append(p, bytes.Repeat([]byte(" "), l.Intn(3000))...)
		p = append(p, []byte("<?xpacket end='w'?>")...)
	case 1:
		p = append([]byte{0xff, 0xfe}, head...)
		n := l.Intn(6000)
		f := l.Sub()
		for i := 0; i < n; i++ {
			b := f.Byte()
			if f.Intn(12) == 0 {
				b = 0xff
			}
			p = append(p, b)
		}
	default:
		p = append(p, head...)
		// a look-alike Exif segment and a nested SOI + DQT inside the packet
		p = append(p, 0xff, 0xe1, 0x00, 0x10, 'E', 'x', 'i', 'f', 0, 0, 'I', 'I', 0x2b, 0, 8, 0, 0, 0)
		p = append(p, 0xff, 0xd8, 0xff, 0xdb, 0x00, 0x04, 1, 2, 0xff, 0xd9)
		p = append(p, l.Sub().Bytes(l.Intn(500))...)
	}
	return gen.ScreenTIFF(p)
}

func c10Run(c *Ctx) {
	g := c.L("gen")
	cfg := c.L("cfg")
	var o gen.JPEGOpts
	nExif := []int{1, 0, 1, 2}[g.Intn(4)]
	for i := 0; i < nExif; i++ {
		rec := gen.DrawRecord(g, 300)
		ly := gen.BuildTIFF(g, rec, gen.LayoutOpts{Foreign: 4})
		enc := ly.Encode(g.Bool())
		if len(enc.Bytes) > 60000 || enc.MaxPending > 84 || enc.MaxEntries > 128 {
			continue
		}
		o.Exif = append(o.Exif, enc.Bytes)
	}
	nXmp := []int{1, 0, 1, 2}[g.Intn(4)]
	for i := 0; i < nXmp; i++ {
		o.XMP = append(o.XMP, xmpPacket(g))
	}
	o.Max = 8
	if x := c.L("gen:x"); x.Chance(1, 10) {
		o.BigSeg = 1 + x.Intn(4) // an ignored segment with length field 0xFFFF..0xFFFC
		c.Inc("probe:max-length-segment")
	}
	// call environment
	var spec EnvSpec
	spec.RK = cfg.Intn(harness.NumRK)
	mode := cfg.Intn(4)
	if mode == 1 && len(o.Exif) > 1 && !c.L("cfg:x").Chance(1, 2) {
		// the library's own Exif reader is one object that the harness (like imagemeta.DecodeJPEG)
		// hands to every invocation: half of these cases keep a single Exif segment, the other half
		// test what the property's premise says of that reader - that it consumes its declared
		// length - for the second and later segments too
		o.Exif = o.Exif[:1]
	}
	j := gen.DrawJPEG(g, o)
	switch mode {
	case 0: // both actors
		spec.UseActors = 1
	case 1: // library's own Exif reader, XMP actor
		spec.UseActors = 2
	case 2: // nil callbacks
		spec.NilCB = true
	default:
		spec.UseActors = 1
	}
	spec.Exif, spec.Xmp, spec.Prev = drawActorSpec(c.L("act:exif")), drawActorSpec(c.L("act:xmp")), ActorSpec{}
	// the property's premise: the Exif callback consumes its declared length (in arbitrary pieces,
	// through Read or Peek/Discard) and callbacks return nil
	spec.Exif.Mode, spec.Exif.RetErr, spec.Xmp.RetErr = world.ActExact, false, false
	d := drawDelivery(c.L("dev:0"))

	var kinds []string
	for _, s := range j.Segs {
		kinds = append(kinds, s.Kind)
	}
	c.Descf("jpeg len=%d segments=%s", len(j.Bytes), strings.Join(kinds, " "))
	c.Descf("%s delivery=%s", spec, d)
	if c.Describe && len(j.Bytes) <= 900 {
		c.Descf("hex=%x", j.Bytes)
	}
	c.Dev.Budget = c08Budget(len(j.Bytes))
	harness.LogDefault()
	harness.Pristine()
	e := harness.EntryByName("jpeg.ScanJPEG")
	// the marker stream may be the rest of a larger stream (a JPEG inside a container): the caller
	// has read, or skipped with Seek, what comes before; offsets are counted from where the scan starts
	content := j.Bytes
	env := spec.New(c.Dev)
	if x := c.L("dev:0:x"); x.Chance(1, 5) {
		n := []int{1, 50, 512, 4096, 5000}[x.Intn(5)] + x.Intn(30)
		content = append(gen.ScreenTIFF(x.Sub().Bytes(n)), j.Bytes...)
		env.Prepos, env.PreposSeek = n, x.Bool()
		c.Descf("%d bytes taken from the stream before the scan (by seek: %v)", n, env.PreposSeek)
		c.Inc("probe:scan-starts-midstream")
	}
	r := newReader(c.Dev, content, Fault{}, d)
	res := invoke(c, e, env, r)
	if c.PlanOnly {
		return
	}
	c.Inc("entry:jpeg.ScanJPEG")
	c.Inc(fmt.Sprintf("cfg.callbacks:%d", spec.UseActors))
	if res.Panic != nil {
		if res.Panic.Class == "budget" {
			c.Fail("mismatch", e.Name, "no-return", "scan of a well-formed marker stream exceeded the device tick budget")
			return
		}
		c.Fail("mismatch", e.Name, "panic:"+res.Panic.Func, "scan of a well-formed marker stream panicked: "+res.Panic.Value)
		return
	}
	// expected callbacks from the segment table
	var wantExif, wantXmp []gen.Segment
	for i, s := range j.Segs {
		if i >= j.FirstTable {
			break
		}
		switch s.Kind {
		case "exif":
			wantExif = append(wantExif, s)
		case "xmp":
			wantXmp = append(wantXmp, s)
		}
	}
	if !res.ErrNil {
		c.Fail("mismatch", e.Name, "error", fmt.Sprintf("ScanJPEG of a well-formed stream returned %s (want nil at the first DQT)", res.Err))
		return
	}
	if spec.NilCB {
		c.NonTrivial = len(wantExif)+len(wantXmp) > 0
		return
	}
	// XMP actor
	if env.XmpActor != nil {
		a := env.XmpActor
		if len(a.Inv) != len(wantXmp) {
			c.Fail("payload", e.Name, "xmp-invocations", fmt.Sprintf("XMP callback invoked %d times, the stream holds %d XMP APP1 segments before the first DQT", len(a.Inv), len(wantXmp)))
			return
		}
		for i, inv := range a.Inv {
			w := wantXmp[i].Data
			c.NonTrivial = true
			if !bytes.HasPrefix(w, inv.Got) {
				c.Fail("payload", e.Name, "xmp-bytes", fmt.Sprintf("XMP callback %d obtained %d bytes that are not a prefix of the %d-byte packet (first difference at %d)", i, len(inv.Got), len(w), firstDiff(w, inv.Got)))
				return
			}
			switch a.Mode {
			case world.ActExact, world.ActToEOF, world.ActOver:
				if len(inv.Got) != len(w) {
					c.Fail("payload", e.Name, "xmp-length", fmt.Sprintf("XMP callback %d read to the end and obtained %d bytes; the packet has %d (err=%q)", i, len(inv.Got), len(w), inv.Err))
					return
				}
				if !inv.EOF {
					c.Fail("payload", e.Name, "xmp-eof", fmt.Sprintf("XMP callback %d: the reader did not report EOF after the packet (err=%q)", i, inv.Err))
					return
				}
			}
			if len(inv.Extra) > 0 {
				c.Fail("payload", e.Name, "xmp-overread", fmt.Sprintf("XMP callback %d obtained %d bytes beyond the packet", i, len(inv.Extra)))
				return
			}
			c.Inc("probe:xmp-callback-checked")
		}
	}
	// Exif actor
	if env.ExifActor != nil {
		a := env.ExifActor
		if len(a.Inv) != len(wantExif) {
			c.Fail("payload", e.Name, "exif-invocations", fmt.Sprintf("Exif callback invoked %d times, the stream holds %d Exif APP1 segments before the first DQT", len(a.Inv), len(wantExif)))
			return
		}
		for i, inv := range a.Inv {
			w := wantExif[i]
			c.NonTrivial = true
			bo, first := "LittleEndian", binary.LittleEndian.Uint32(w.Data[4:8])
			if w.Data[0] == 'M' {
				bo, first = "BigEndian", binary.BigEndian.Uint32(w.Data[4:8])
			}
			want := fmt.Sprintf("bo=%s first=%d tiff=%d len=%d ", bo, first, w.DataOff, len(w.Data))
			if !strings.HasPrefix(inv.Header, want) {
				c.Fail("payload", e.Name, "exif-header", fmt.Sprintf("Exif callback %d header %q, the segment table says %q", i, inv.Header, want))
				return
			}
			if !bytes.Equal(inv.Got, w.Data) {
				c.Fail("payload", e.Name, "exif-bytes", fmt.Sprintf("Exif callback %d obtained %d bytes, the TIFF block has %d (first difference at %d, err=%q)", i, len(inv.Got), len(w.Data), firstDiff(w.Data, inv.Got), inv.Err))
				return
			}
			c.Inc("probe:exif-callback-checked")
		}
	} else if res.Exif != nil && len(wantExif) > 0 {
		// the library's own reader is the callback: it must have been handed the right block
		// (resumption after it is judged through the XMP actor above)
		c.Inc("probe:library-exif-reader-as-callback")
	}
	c.Descf("exif callbacks=%d xmp callbacks=%d err=%s device pos at return=%d", len(wantExif), len(wantXmp), res.Err, r.Pos())
}

func firstDiff(a, b []byte) int {
	n := len(a)
	if len(b) < n {
		n = len(b)
	}
	for i := 0; i < n; i++ {
		if a[i] != b[i] {
			return i
		}
	}
	return n
}

func init() {
	p := &Prop{
		ID:    "C10",
		Level: "exploration",
		Rule: "a run is non-trivial when at least one callback actor was invoked and its observation was compared with the segment table; " +
			"distinct = distinct run digests (device call and byte counts, canonical result including every actor's header, obtained-byte hash and error)",
		QuickSec: 30, ThoroughSec: 400,
		Assumptions: []string{
			"marker streams: SOI, 0..2 Exif-APP1, 0..2 XMP-APP1 and 0..8 other segments (JFIF/JFXX, XMP-extension, ICC, Photoshop, APPn with look-alike prefixes, COM, DRI, SOF, payloads with 0xFF bytes and nested SOI..EOI) in any order, then DQT.. DHT SOS + >=64 bytes + EOI",
			"premise of the property: the Exif callback consumes exactly its declared length (arbitrary pieces, Read or Peek/Discard, or the library's own reader); callbacks return nil",
			"where ScanJPEG leaves the stream is recorded, not judged",
		},
	}
	p.Campaigns = []*Campaign{{
		Name: "streams", Weight: 1,
		N: func(tier string, seed uint64) uint64 {
			if tier == "thorough" {
				return 24000000
			}
			return 200000
		},
		Run: c10Run,
	}}
	Register(p)
}
