// Package props holds one file per claimed property: its campaigns (workload + fault/schedule
// space) and oracles.
package props

import (
	"fmt"
	"os"
	"sort"
	"strings"

	"verifsim/core"
	"verifsim/world"
)

// Ctx is the context of one simulated run.
type Ctx struct {
	Prop     string
	Tier     string
	Seed     uint64
	Run      uint64
	Lanes    *core.Lanes
	D        *core.Digest
	St       *core.Stats
	Dev      *world.Device
	Repo     string
	Describe bool
	// PlanOnly: generate the case (all draws made before the library is entered) but do not call
	// the library; used to describe runs that kill their process.
	PlanOnly  bool
	PlanEntry string

	Viol       *core.Violation
	Sched      uint64 // schedule digest of a multi-task run (0: single task)
	NonTrivial bool
	Exports    map[string]string
	desc       []string
}

// Export publishes a key/value pair to later phases (collected by the orchestrator).
func (c *Ctx) Export(k, v string) {
	if c.Exports == nil {
		c.Exports = map[string]string{}
	}
	c.Exports[k] = v
}

// drawActor samples a callback actor's behaviour from its own lane.
func drawActor(c *Ctx, lane string) *world.Actor {
	return drawActorSpec(c.L(lane)).New(c.Dev, lane)
}

// ActorSpec is a drawn actor behaviour; New instantiates it (several identical instances can
// be made for differential runs).
type ActorSpec struct {
	Mode, Piece     int
	UsePeek, RetErr bool
	UseByte         bool
	Seed            uint64
}

func drawActorSpec(l *core.Lane) ActorSpec {
	return ActorSpec{Mode: l.Intn(5), Piece: l.Intn(5), UsePeek: l.Bool(), RetErr: l.Chance(1, 6), Seed: l.U64(), UseByte: l.Chance(1, 4)}
}

func (s ActorSpec) New(dev *world.Device, name string) *world.Actor {
	return &world.Actor{Name: name, Dev: dev, R: core.NewSplitMix(s.Seed), Seed: s.Seed, Mode: s.Mode, Piece: s.Piece, UsePeek: s.UsePeek, RetErr: s.RetErr, UseByte: s.UseByte}
}

func (s ActorSpec) String() string {
	return fmt.Sprintf("{mode=%d piece=%d peek=%v byte=%v reterr=%v}", s.Mode, s.Piece, s.UsePeek, s.UseByte, s.RetErr)
}

// L returns a lane.
func (c *Ctx) L(name string) *core.Lane { return c.Lanes.Lane(name) }

// Fail records the first violation of the run.
func (c *Ctx) Fail(kind, entry, site, detail string) {
	if c.Viol == nil {
		c.Viol = &core.Violation{Prop: c.Prop, Kind: kind, Entry: entry, Site: site, Detail: detail}
	}
}

// Descf adds a line to the human-readable description of the case (only kept when describing).
func (c *Ctx) Descf(format string, a ...interface{}) {
	if c.Describe {
		c.desc = append(c.desc, fmt.Sprintf(format, a...))
	}
}

func (c *Ctx) Desc() string { return strings.Join(c.desc, "\n") }

// Inc bumps a counter.
func (c *Ctx) Inc(name string) { c.St.C[name]++ }

// Campaign is one workload × fault space. Sampled campaigns draw everything from lanes seeded
// by (seed, run index); enumerated campaigns synthesise forced lanes from the run index.
type Campaign struct {
	Name string
	// Phase 0 campaigns run first; what they Export is available to later phases as KV.
	Phase int
	// N returns the number of runs for the tier (for enumerated campaigns: the size of the
	// enumeration, possibly sub-sampled in the quick tier).
	N func(tier string, seed uint64) uint64
	// Share of the tier's wall budget (relative weight).
	Weight int
	// Enumerated campaigns report completion.
	Enumerated bool
	// Fresh: every run of the campaign executes in a fresh worker process (first-call-in-process
	// behaviour: lazily initialised package state, cold caches and pools).
	Fresh  bool
	Forced func(tier string, seed uint64, idx uint64) map[string][]uint64
	Run    func(c *Ctx)
}

// Prop is one claimed property.
type Prop struct {
	ID        string
	Level     string // exploration | fault_enumeration
	Rule      string // what makes a run non-trivial / distinct
	Campaigns []*Campaign
	Setup     func(repo, tier string) error
	// Budget in seconds per tier (wall, whole check).
	QuickSec, ThoroughSec int
	// Race: build the worker with -race as well; RacePhases lists the phases that run in it.
	Race       bool
	RacePhases []int
	// HangKind: "" = a confirmed hang is attributed to C02 and only noted under this property;
	// otherwise a confirmed hang is a violation of this property with this kind ("stall").
	HangKind string
	// PhaseBudget: share (percent) of the tier's wall budget per phase; empty = all to the last phase.
	PhaseBudget []int
	// Procs: GOMAXPROCS for workers (0 = default 1).
	Procs int
	// Workers: number of worker processes (0 = 16).
	Workers int
	// RunTimeoutSec: watchdog per run (0 = default 10).
	RunTimeoutSec int
	// SyncYields: the orchestrator builds the workers from an instrumented scratch copy of the
	// repository in which synchronisation operations are scheduling points (sim/yieldinst).
	SyncYields  bool
	Assumptions []string
	Components  map[string]string
}

var Registry = map[string]*Prop{}

func Register(p *Prop) { Registry[p.ID] = p }

func (p *Prop) Campaign(name string) *Campaign {
	for _, c := range p.Campaigns {
		if c.Name == name {
			return c
		}
	}
	return nil
}

func PropIDs() []string {
	var ids []string
	for k := range Registry {
		ids = append(ids, k)
	}
	sort.Strings(ids)
	return ids
}

// Execute runs one case and returns its outcome plus consumed lane traces.
func Execute(p *Prop, cs *core.Case, tier, repo string, st *core.Stats, describe bool) (*core.Outcome, map[string][]uint64) {
	return execute(p, cs, tier, repo, st, describe, false)
}

// Plan generates the case without entering the library.
func Plan(p *Prop, cs *core.Case, tier, repo string) (desc, entry string) {
	o, _ := execute(p, cs, tier, repo, nil, true, true)
	return o.Desc, o.Exports["plan-entry"]
}

func execute(p *Prop, cs *core.Case, tier, repo string, st *core.Stats, describe, plan bool) (*core.Outcome, map[string][]uint64) {
	camp := p.Campaign(cs.Campaign)
	if camp == nil {
		return &core.Outcome{Viol: &core.Violation{Prop: p.ID, Kind: "machinery", Site: "unknown campaign " + cs.Campaign}}, nil
	}
	forced := cs.Lanes
	if forced == nil && camp.Forced != nil {
		forced = camp.Forced(tier, cs.Seed, cs.Run)
	}
	lanes := core.NewLanes(cs.Seed, p.ID, cs.Campaign, cs.Run, forced, cs.ReplayAll)
	if st == nil {
		st = core.NewStats()
	}
	c := &Ctx{Prop: p.ID, Tier: tier, Seed: cs.Seed, Run: cs.Run, Lanes: lanes, D: core.NewDigest(), St: st,
		Dev: &world.Device{}, Repo: repo, Describe: describe, PlanOnly: plan}
	c.D.Str(p.ID)
	c.D.Str(cs.Campaign)
	camp.Run(c)
	if plan {
		c.Export("plan-entry", c.PlanEntry)
	}
	out := &core.Outcome{Viol: c.Viol, Digest: c.D.Hex(), NonTrivial: c.NonTrivial, Ticks: c.Dev.Seq, Exports: c.Exports, Sched: c.Sched}
	if describe {
		out.Desc = c.Desc()
	}
	return out, lanes.Traces()
}

// Repo returns the repository root the checks read sample files from.
func RepoRoot() string {
	if r := os.Getenv("VERIF_REPO"); r != "" {
		return r
	}
	return "/repo"
}
