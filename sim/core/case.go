package core

import (
	"encoding/json"
	"fmt"
	"os"
	"sort"
	"strings"
)

// Digest folds every event of a run into 64 bits (FNV-1a).
type Digest struct{ h uint64 }

func NewDigest() *Digest { return &Digest{h: 0xcbf29ce484222325} }

func (d *Digest) Bytes(b []byte) {
	h := d.h
	for _, c := range b {
		h ^= uint64(c)
		h *= 0x100000001b3
	}
	d.h = h
}
func (d *Digest) Str(s string) {
	h := d.h
	for i := 0; i < len(s); i++ {
		h ^= uint64(s[i])
		h *= 0x100000001b3
	}
	h ^= 0xff
	h *= 0x100000001b3
	d.h = h
}
func (d *Digest) U64(v uint64) {
	h := d.h
	for i := 0; i < 8; i++ {
		h ^= v & 0xff
		h *= 0x100000001b3
		v >>= 8
	}
	d.h = h
}
func (d *Digest) Int(v int)   { d.U64(uint64(int64(v))) }
func (d *Digest) Sum() uint64 { return d.h }
func (d *Digest) Hex() string { return fmt.Sprintf("%016x", d.h) }

// Case identifies one exactly repeatable execution.
type Case struct {
	Prop     string              `json:"property"`
	Campaign string              `json:"campaign"`
	Seed     uint64              `json:"seed"`
	Run      uint64              `json:"run"`
	Lanes    map[string][]uint64 `json:"lanes,omitempty"`
	// ReplayAll: lanes absent from Lanes read zeros instead of the PRNG.
	ReplayAll bool `json:"replay_all"`
}

// Violation describes one failed oracle.
type Violation struct {
	Prop   string `json:"property"`
	Kind   string `json:"kind"`  // panic fatal hang livelock overread alloc mismatch consumed position payload race stall stdout
	Entry  string `json:"entry"` // entry point
	Site   string `json:"site"`  // library function+panic class / field path / ...
	Detail string `json:"detail"`
}

// Sig is the signature used for known-finding matching and for "same violation" in minimisation.
func (v *Violation) Sig() string {
	return v.Prop + "|" + v.Kind + "|" + v.Entry + "|" + v.Site
}

// Outcome of one run.
type Outcome struct {
	Viol       *Violation        `json:"violation,omitempty"`
	Digest     string            `json:"digest"`
	NonTrivial bool              `json:"nontrivial"`
	Ticks      int64             `json:"ticks"`
	Desc       string            `json:"desc,omitempty"` // human-readable case description (filled on demand)
	Exports    map[string]string `json:"exports,omitempty"`
	Sched      uint64            `json:"sched,omitempty"` // schedule digest (multi-task worlds): sequence of running task ids
}

// ReplayFile is what is written for a violation / known finding.
type ReplayFile struct {
	Case      Case       `json:"case"`
	Violation *Violation `json:"violation"`
	Signature string     `json:"signature"`
	Digest    string     `json:"digest"`
	Desc      string     `json:"description"`
	Minimised bool       `json:"minimised"`
	Note      string     `json:"note,omitempty"`
}

func WriteReplay(path string, rf *ReplayFile) error {
	b, err := json.MarshalIndent(rf, "", " ")
	if err != nil {
		return err
	}
	return os.WriteFile(path, append(b, '\n'), 0o644)
}

func ReadReplay(path string) (*ReplayFile, error) {
	b, err := os.ReadFile(path)
	if err != nil {
		return nil, err
	}
	var rf ReplayFile
	if err := json.Unmarshal(b, &rf); err != nil {
		return nil, err
	}
	return &rf, nil
}

// Stats are additive counters reported by workers and merged by the orchestrator.
type Stats struct {
	Runs       int64            `json:"runs"`
	NonTrivial int64            `json:"nontrivial"`
	Ticks      int64            `json:"ticks"`
	C          map[string]int64 `json:"counters"`
	Samples    []string         `json:"samples"`
	Campaigns  map[string]int64 `json:"campaign_runs"`
	Complete   map[string]bool  `json:"campaign_complete"` // enumerated campaign fully run
}

func NewStats() *Stats {
	return &Stats{C: map[string]int64{}, Campaigns: map[string]int64{}, Complete: map[string]bool{}}
}

func (s *Stats) Add(name string, n int64) { s.C[name] += n }
func (s *Stats) Inc(name string)          { s.C[name]++ }

func (s *Stats) Merge(o *Stats) {
	s.Runs += o.Runs
	s.NonTrivial += o.NonTrivial
	s.Ticks += o.Ticks
	for k, v := range o.C {
		s.C[k] += v
	}
	for k, v := range o.Campaigns {
		s.Campaigns[k] += v
	}
	for k, v := range o.Complete {
		if prev, ok := s.Complete[k]; ok {
			s.Complete[k] = prev && v
		} else {
			s.Complete[k] = v
		}
	}
	for _, x := range o.Samples {
		if len(s.Samples) < 12 {
			s.Samples = append(s.Samples, x)
		}
	}
}

// Group returns counters with the given prefix, prefix stripped, keys sorted.
func (s *Stats) Group(prefix string) map[string]int64 {
	out := map[string]int64{}
	for k, v := range s.C {
		if strings.HasPrefix(k, prefix) {
			out[k[len(prefix):]] = v
		}
	}
	return out
}

func SortedKeys(m map[string]int64) []string {
	ks := make([]string, 0, len(m))
	for k := range m {
		ks = append(ks, k)
	}
	sort.Strings(ks)
	return ks
}
