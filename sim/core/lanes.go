// Package core holds the simulator's choice lanes, PRNG, run digest, case/replay format and the
// lane minimiser. It does not import the library under test.
package core

import (
	"hash/fnv"
	"sort"
)

// splitmix64 PRNG: one integer decides everything.
type SplitMix struct{ s uint64 }

func NewSplitMix(seed uint64) *SplitMix { return &SplitMix{s: seed} }

func (r *SplitMix) Next() uint64 {
	r.s += 0x9e3779b97f4a7c15
	z := r.s
	z = (z ^ (z >> 30)) * 0xbf58476d1ce4e5b9
	z = (z ^ (z >> 27)) * 0x94d049bb133111eb
	return z ^ (z >> 31)
}

func (r *SplitMix) Intn(n int) int {
	if n <= 1 {
		return 0
	}
	return int(r.Next() % uint64(n))
}

func hashStr(parts ...string) uint64 {
	h := fnv.New64a()
	for _, p := range parts {
		h.Write([]byte(p))
		h.Write([]byte{0})
	}
	return h.Sum64()
}

// Lane is one stream of choices. In generate mode a draw comes from the lane's PRNG and is
// appended to the trace; in replay mode it is read back from the trace (0 when exhausted).
// By construction value 0 is always the simplest alternative.
type Lane struct {
	Name   string
	rng    *SplitMix
	trace  []uint64
	replay bool
	pos    int
}

// Intn draws a value in [0,n).
func (l *Lane) Intn(n int) int {
	if n <= 1 {
		// still recorded so that traces keep their shape when n varies with earlier choices
		n = 1
	}
	var v uint64
	if l.replay {
		if l.pos < len(l.trace) {
			v = l.trace[l.pos] % uint64(n)
			l.trace[l.pos] = v
		} else {
			v = 0
			l.trace = append(l.trace, 0)
		}
		l.pos++
		return int(v)
	}
	v = l.rng.Next() % uint64(n)
	l.trace = append(l.trace, v)
	l.pos++
	return int(v)
}

// Range draws a value in [lo,hi] (inclusive); lo is the simplest.
func (l *Lane) Range(lo, hi int) int {
	if hi < lo {
		hi = lo
	}
	return lo + l.Intn(hi-lo+1)
}

// Bool draws a boolean; false is the simplest.
func (l *Lane) Bool() bool { return l.Intn(2) == 1 }

// Chance returns true with probability num/den; false is the simplest.
func (l *Lane) Chance(num, den int) bool {
	return l.Intn(den) >= den-num
}

// U64 draws a raw 64-bit value (used as sub-seed).
func (l *Lane) U64() uint64 {
	var v uint64
	if l.replay {
		if l.pos < len(l.trace) {
			v = l.trace[l.pos]
		} else {
			l.trace = append(l.trace, 0)
		}
		l.pos++
		return v
	}
	v = l.rng.Next()
	l.trace = append(l.trace, v)
	l.pos++
	return v
}

// Sub returns a local PRNG derived from a single draw; used for bulk random content (payload
// bytes) so that traces stay short. Sub-seed 0 is the simplest (callers map it to constant
// content via Filler).
func (l *Lane) Sub() *Filler {
	s := l.U64()
	return &Filler{zero: s == 0, r: NewSplitMix(s)}
}

// Trace returns the values consumed so far.
func (l *Lane) Trace() []uint64 {
	if l.pos < len(l.trace) {
		return l.trace[:l.pos]
	}
	return l.trace
}

// Filler produces bulk pseudo-random content from one lane draw.
type Filler struct {
	zero bool
	r    *SplitMix
}

func (f *Filler) Intn(n int) int {
	if f.zero {
		return 0
	}
	return f.r.Intn(n)
}

func (f *Filler) Byte() byte {
	if f.zero {
		return 'A'
	}
	return byte(f.r.Next())
}

func (f *Filler) Bytes(n int) []byte {
	b := make([]byte, n)
	for i := range b {
		b[i] = f.Byte()
	}
	return b
}

// Lanes is the set of lanes of one run.
type Lanes struct {
	base   uint64
	forced map[string][]uint64
	replay bool // true: every lane is replayed (absent => zeros)
	lanes  map[string]*Lane
	order  []string
}

// NewLanes creates the lanes of one run. forced lanes are replayed from the given traces; the
// others are generated from the PRNG unless replayAll is set, in which case they read zeros.
func NewLanes(seed uint64, prop, campaign string, run uint64, forced map[string][]uint64, replayAll bool) *Lanes {
	var rb [8]byte
	for i := 0; i < 8; i++ {
		rb[i] = byte(run >> (8 * i))
	}
	var sb [8]byte
	for i := 0; i < 8; i++ {
		sb[i] = byte(seed >> (8 * i))
	}
	return &Lanes{
		base:   hashStr(string(sb[:]), prop, campaign, string(rb[:])),
		forced: forced,
		replay: replayAll,
		lanes:  map[string]*Lane{},
	}
}

func (ls *Lanes) Lane(name string) *Lane {
	if l, ok := ls.lanes[name]; ok {
		return l
	}
	l := &Lane{Name: name}
	if tr, ok := ls.forced[name]; ok {
		l.replay = true
		l.trace = append([]uint64(nil), tr...)
	} else if ls.replay {
		l.replay = true
	} else {
		l.rng = NewSplitMix(ls.base ^ hashStr("lane", name))
	}
	ls.lanes[name] = l
	ls.order = append(ls.order, name)
	return l
}

// Traces returns the consumed traces of all lanes (for the replay file).
func (ls *Lanes) Traces() map[string][]uint64 {
	out := map[string][]uint64{}
	names := append([]string(nil), ls.order...)
	sort.Strings(names)
	for _, n := range names {
		out[n] = append([]uint64(nil), ls.lanes[n].Trace()...)
	}
	return out
}
