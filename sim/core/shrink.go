package core

import "sort"

// TestFn runs a candidate (all lanes replayed) and reports whether the same violation signature
// recurs; it returns the traces actually consumed so the candidate can be normalised.
type TestFn func(lanes map[string][]uint64) (same bool, consumed map[string][]uint64)

func cloneLanes(m map[string][]uint64) map[string][]uint64 {
	o := make(map[string][]uint64, len(m))
	for k, v := range m {
		o[k] = append([]uint64(nil), v...)
	}
	return o
}

func laneNames(m map[string][]uint64) []string {
	ns := make([]string, 0, len(m))
	for k := range m {
		ns = append(ns, k)
	}
	sort.Strings(ns)
	return ns
}

func trimZeros(m map[string][]uint64) {
	for k, v := range m {
		n := len(v)
		for n > 0 && v[n-1] == 0 {
			n--
		}
		m[k] = v[:n]
	}
}

// Minimise shrinks lane traces toward deletion and zero while test keeps reporting the same
// signature. It works on lanes, never on raw file bytes, so every candidate is still a
// well-formed case of the same campaign. budget caps the number of candidate executions.
func Minimise(start map[string][]uint64, test TestFn, budget int) (best map[string][]uint64, tried int) {
	best = cloneLanes(start)
	try := func(c map[string][]uint64) bool {
		if tried >= budget {
			return false
		}
		tried++
		ok, consumed := test(c)
		if ok {
			best = cloneLanes(consumed)
			trimZeros(best)
			return true
		}
		return false
	}
	// normalise
	if !try(best) {
		return cloneLanes(start), tried
	}
	for round := 0; round < 8 && tried < budget; round++ {
		improved := false
		for _, name := range laneNames(best) {
			// whole lane to zeros
			if len(best[name]) > 0 {
				c := cloneLanes(best)
				c[name] = nil
				if try(c) {
					improved = true
					continue
				}
			}
			// delete chunks
			for size := len(best[name]) / 2; size >= 1; size /= 2 {
				for i := 0; i+size <= len(best[name]) && tried < budget; {
					c := cloneLanes(best)
					c[name] = append(append([]uint64(nil), best[name][:i]...), best[name][i+size:]...)
					if try(c) {
						improved = true
					} else {
						i += size
					}
				}
			}
			// zero chunks
			for size := len(best[name]) / 2; size >= 1; size /= 2 {
				for i := 0; i+size <= len(best[name]) && tried < budget; i += size {
					allZero := true
					for _, v := range best[name][i : i+size] {
						if v != 0 {
							allZero = false
						}
					}
					if allZero {
						continue
					}
					c := cloneLanes(best)
					for j := i; j < i+size && j < len(c[name]); j++ {
						c[name][j] = 0
					}
					if try(c) {
						improved = true
					}
				}
			}
			// lower single values by binary search
			for i := 0; i < len(best[name]) && tried < budget; i++ {
				v := best[name][i]
				if v == 0 {
					continue
				}
				lo, hi := uint64(0), v // smallest failing value in (lo,hi]; lo known-pass (0 tried above) or untested
				for hi-lo > 1 && tried < budget {
					mid := lo + (hi-lo)/2
					c := cloneLanes(best)
					if i >= len(c[name]) {
						break
					}
					c[name][i] = mid
					if try(c) {
						improved = true
						if i < len(best[name]) {
							hi = best[name][i]
							if hi > mid {
								hi = mid
							}
						} else {
							break
						}
					} else {
						lo = mid
					}
				}
			}
		}
		if !improved {
			break
		}
	}
	return best, tried
}
