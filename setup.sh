#!/bin/bash
# setup_cmd: builds bin/simctl offline from /verif/sim (the orchestrator does not import /repo).
set -e
cd "$(dirname "$0")"
export GOFLAGS=-mod=mod GOPROXY=off GOSUMDB=off GOTOOLCHAIN=local
REPO="${VERIF_REPO:-/repo}"
mkdir -p bin evidence out/replays
cp "$REPO/go.sum" sim/go.sum
(cd sim && go build -o ../bin/simctl ./cmd/simctl)
echo "setup: built bin/simctl"
