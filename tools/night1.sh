#!/bin/bash
cd "$(dirname "$0")/.."
./setup.sh >/dev/null
RUNS=300 REPEAT=20 tools/selftest_determinism.sh 2>&1 | grep -v "^WARNING" | tail -25
tools/thorough_all.sh 3
