#!/bin/bash
# thorough_some.sh <seed> <prop>...  — the thorough tier of the named properties, one after the other.
cd "$(dirname "$0")/.."
export VERIF_SEED=${1:-1}; shift
./setup.sh > /dev/null
for p in "$@"; do
  ./check $p --tier thorough 2>&1 | grep -v "^WARNING" | cut -c1-600 | grep -v "^  case: \|^task \|^flip " | tail -12
  echo "== $p exit=${PIPESTATUS[0]}"
done
