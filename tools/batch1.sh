#!/bin/bash
cd "$(dirname "$0")/.."
./setup.sh >/dev/null
tools/seeded.sh /tmp/mut/C01/out/1 C01-a-fastread-clamp C01
tools/seeded.sh /tmp/mut/C14/out/2 C14-b-unbuffered-cap C14 C02
tools/seeded.sh /tmp/mut/C03/out/1 C03-a-resetposition-half C03 C06
tools/seeded.sh /tmp/mut/C07/out/1 C07-a-uint32-short-ii C07
tools/seeded.sh /tmp/mut/C07/out/2 C07-b-uint16-long-mm C07
tools/seeded.sh /tmp/mut/C04/out/1 C04-a-fastread-stale-tail C04
tools/seeded.sh /tmp/mut/C04/out/2 C04-b-nexttag-le C04
tools/seeded.sh /tmp/mut/C05/out/1 C05-a-zonecache-rlock-write C05
tools/seeded.sh /tmp/mut/C05/out/2 C05-b-reader-double-put C05 C04
tools/seeded.sh /tmp/mut/C15/out/1 C15-a-type13-stringer C15
tools/seeded.sh /tmp/mut/C15/out/2 C15-b-global-logger-stderr C15
