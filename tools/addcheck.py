#!/usr/bin/env python3
# addcheck.py <ID> <category> <technique> <level text> <level note>   — add/replace a check entry in MANIFEST.json
import json,sys
pid,cat,tech,text,note=sys.argv[1:6]
m=json.load(open('/verif/MANIFEST.json'))
m['checks']=[c for c in m['checks'] if c['property_id']!=pid]
m['checks'].append({"property_id":pid,"quick_cmd":f"./check {pid} --tier quick","thorough_cmd":f"./check {pid} --tier thorough",
 "evidence_file":f"/verif/evidence/{pid}.json","replay_cmd_template":f"./check {pid} --replay {{path}}","engine":"simctl",
 "level_claimed":{"category":cat,"text":text,"design_ref":f"DESIGN.md §5 {pid}"},"level_note":note,"technique":tech})
m['checks'].sort(key=lambda c:c['property_id'])
for e in m['engines']:
    e['serves_properties']=sorted(c['property_id'] for c in m['checks'])
json.dump(m,open('/verif/MANIFEST.json','w'),indent=1)
print("checks:",[c['property_id'] for c in m['checks']])
