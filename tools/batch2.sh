#!/bin/bash
cd "$(dirname "$0")/.."
./setup.sh >/dev/null
tools/seeded.sh /verif/seeded/C01-a-fastread-clamp C01-a-fastread-clamp C01
tools/seeded.sh /verif/seeded/C01-b-xmp-tagvalue-spin C01-b-xmp-tagvalue-spin C01 C02
tools/seeded.sh /verif/seeded/C02-a-xmp-attrvalue-spin C02-a-xmp-attrvalue-spin C02
tools/seeded.sh /verif/seeded/C02-b-maxvalue-4mib C02-b-maxvalue-4mib C02 C14
tools/seeded.sh /verif/seeded/C03-a-resetposition-half C03-a-resetposition-half C03
tools/seeded.sh /verif/seeded/C03-b-createdate-offset C03-b-createdate-offset C03
tools/seeded.sh /verif/seeded/C04-a-fastread-stale-tail C04-a-fastread-stale-tail C04
tools/seeded.sh /verif/seeded/C04-b-nexttag-le C04-b-nexttag-le C04
tools/seeded.sh /verif/seeded/C05-a-zonecache-rlock-write C05-a-zonecache-rlock-write C05
tools/seeded.sh /verif/seeded/C05-b-reader-double-put C05-b-reader-double-put C05
tools/seeded.sh /verif/seeded/C06-a-value-end-exact C06-a-value-end-exact C06
tools/seeded.sh /verif/seeded/C06-b-png-idat-stop C06-b-png-idat-stop C06
tools/seeded.sh /verif/seeded/C07-a-uint32-short-ii C07-a-uint32-short-ii C07
tools/seeded.sh /verif/seeded/C07-b-uint16-long-mm C07-b-uint16-long-mm C07
tools/seeded.sh /verif/seeded/C08-a-preview-data-eof C08-a-preview-data-eof C08
tools/seeded.sh /verif/seeded/C08-b-discard-short C08-b-discard-short C08
tools/seeded.sh /verif/seeded/C09-a-heif-compat-scan-past-24 C09-a-heif-compat-scan-past-24 C09
tools/seeded.sh /verif/seeded/C09-b-readat-eof-swallowed C09-b-readat-eof-swallowed C09
tools/seeded.sh /verif/seeded/C10-a-segment-length-wrap C10-a-segment-length-wrap C10 C02
tools/seeded.sh /verif/seeded/C10-b-xmp-leftover-not-discarded C10-b-xmp-leftover-not-discarded C10
tools/seeded.sh /verif/seeded/C11-a-close-skips-parent-check C11-a-close-skips-parent-check C11
tools/seeded.sh /verif/seeded/C11-b-container-unclosed-on-child-error C11-b-container-unclosed-on-child-error C11
tools/seeded.sh /verif/seeded/C12-a-window-tail-skip C12-a-window-tail-skip C12
tools/seeded.sh /verif/seeded/C12-b-cross-endian-magic C12-b-cross-endian-magic C12
tools/seeded.sh /verif/seeded/C13-b-leading-junk-bufferfull C13-b-leading-junk-bufferfull C13
tools/seeded.sh /verif/seeded/C14-a-prvw-clamp C14-a-prvw-clamp C14 C01
tools/seeded.sh /verif/seeded/C14-b-unbuffered-cap C14-b-unbuffered-cap C14 C02
tools/seeded.sh /verif/seeded/C15-a-type13-stringer C15-a-type13-stringer C15
tools/seeded.sh /verif/seeded/C15-b-global-logger-stderr C15-b-global-logger-stderr C15
tools/seeded.sh /verif/seeded/C19-a-area-guard C19-a-area-guard C19
tools/seeded.sh /verif/seeded/C19-b-rgba-flat-pix C19-b-rgba-flat-pix C19
tools/seeded.sh /tmp/mut2/C01/out/1 C01-c-exif2-buffer C01 C02
tools/seeded.sh /tmp/mut2/C01/out/2 C01-d-isobmff-crx C01
tools/seeded.sh /tmp/mut2/C02/out/1 C02-c-png-png C02
tools/seeded.sh /tmp/mut2/C02/out/2 C02-d-exif2-buffer C02
tools/seeded.sh /tmp/mut2/C03/out/1 C03-c-exif2-buffer C03
tools/seeded.sh /tmp/mut2/C03/out/2 C03-d-exif2-utils C03
tools/seeded.sh /tmp/mut2/C04/out/1 C04-c-exif2-time C04
tools/seeded.sh /tmp/mut2/C04/out/2 C04-d-imagehash-transforms-pixels C04 C19
tools/seeded.sh /tmp/mut2/C05/out/1 C05-c-imagehash-blurhash C05
tools/seeded.sh /tmp/mut2/C05/out/2 C05-d-jpeg-jpeg C05
tools/seeded.sh /tmp/mut2/C06/out/1 C06-c-tiff-tiff C06 C12
tools/seeded.sh /tmp/mut2/C06/out/2 C06-d-exif2-reader C06
tools/seeded.sh /tmp/mut2/C07/out/1 C07-c-tiff-tiff C07 C12
tools/seeded.sh /tmp/mut2/C07/out/2 C07-d-exif2-reader C07
tools/seeded.sh /tmp/mut2/C08/out/1 C08-c-exif2-reader C08
tools/seeded.sh /tmp/mut2/C08/out/2 C08-d-exif2-reader C08
tools/seeded.sh /tmp/mut2/C09/out/1 C09-c-imagetype-scan C09
tools/seeded.sh /tmp/mut2/C09/out/2 C09-d-imagetype-scan C09
tools/seeded.sh /tmp/mut2/C10/out/1 C10-c-jpeg-jpeg C10
tools/seeded.sh /tmp/mut2/C10/out/2 C10-d-jpeg-jpeg C10
tools/seeded.sh /tmp/mut2/C11/out/1 C11-c-isobmff-ftyp C11
tools/seeded.sh /tmp/mut2/C11/out/2 C11-d-isobmff-moov C11
tools/seeded.sh /tmp/mut2/C12/out/1 C12-c-tiff-tiff C12
tools/seeded.sh /tmp/mut2/C12/out/2 C12-d-tiff-tiff C12
tools/seeded.sh /tmp/mut2/C13/out/1 C13-c-xmp-reader C13
tools/seeded.sh /tmp/mut2/C13/out/2 C13-d-xmp-reader C13
tools/seeded.sh /tmp/mut2/C14/out/1 C14-c-isobmff-iloc C14
tools/seeded.sh /tmp/mut2/C14/out/2 C14-d-xmp-reader C14
tools/seeded.sh /tmp/mut2/C15/out/1 C15-c-isobmff-moov C15
tools/seeded.sh /tmp/mut2/C15/out/2 C15-d-isobmff-iinf C15
tools/seeded.sh /tmp/mut2/C19/out/1 C19-c-imagehash-transforms-pixels C19 C04
tools/seeded.sh /tmp/mut2/C19/out/2 C19-d-imagehash-imagehash C19
