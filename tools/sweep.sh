#!/bin/bash
# sweep.sh [name-prefix]  — re-evaluates every seeded change (seeded/<name>/patch.diff) against the
# current tree and the current checks: the patch must still apply, and the first check listed in
# its meta.json's detected_by must still report a violation. Prints one line per change and a
# summary; changes nothing under seeded/.
cd "$(dirname "$0")/.."
bad=0; n=0
for d in seeded/${1:-}*/; do
  name=$(basename $d)
  chk=$(python3 -c "import json;m=json.load(open('$d/meta.json'));d=m.get('detected_by') or [m['property']];own=[x for x in d if x==m['property']];print((own or d)[0])")
  out=$(tools/mutant.sh sw-$name /verif/$d/patch.diff $chk 2>&1 | tail -1 | cut -c1-160)
  n=$((n+1))
  case "$out" in
    *"exit=1"*) echo "ok   $name: $out";;
    *) echo "MISS $name: $out"; bad=$((bad+1));;
  esac
done
echo "sweep: $n changes, $bad not reported"
