#!/bin/bash
# selftest_determinism.sh [props...]  — determinism self-test (DESIGN §8).
# For every property: the first RUNS runs of every campaign of one worker shard are executed in
# separate OS processes at GOMAXPROCS 1, 4 and 16 (twice at 1), plus REPEAT more executions of the
# same shard run concurrently; the per-run digests (and verdicts) of all executions must be
# identical. Any divergence is printed and the exit status is 2.
VD=$(cd "$(dirname "$0")/.." && pwd)
cd $VD
export GOFLAGS=-mod=mod GOPROXY=off GOSUMDB=off GOTOOLCHAIN=local TZ=UTC
RUNS=${RUNS:-150}; REPEAT=${REPEAT:-8}
B=$VD/.build/selftest; rm -rf $B; mkdir -p $B
cp /repo/go.sum sim/go.sum
sed "s#^replace github.com/evanoberholster/imagemeta => .*#replace github.com/evanoberholster/imagemeta => ${VERIF_REPO:-/repo}#" sim/go.mod > $B/go.mod; cp /repo/go.sum $B/go.sum
(cd sim && go build -modfile=$B/go.mod -tags verif -o $B/simworker ./cmd/simworker) || { echo "MACHINERY-ERROR build"; exit 2; }
props=${@:-C01 C02 C03 C04 C05 C06 C07 C08 C09 C10 C11 C12 C13 C14 C15 C19}
bad=0
PLAIN=$B/simworker
for p in $props; do
  W=$PLAIN
  if $PLAIN -info $p | grep -q '"sync_yields":true'; then
    # this property runs on the instrumented copy (sim/yieldinst), as in the check itself
    if [ ! -x $B/simworker-sync ]; then
      (cd sim && go run -modfile=$B/go.mod -tags verif ./cmd/yieldinst ${VERIF_REPO:-/repo} $B/yieldsrc) || { echo "MACHINERY-ERROR instrument"; exit 2; }
      sed "s#^replace github.com/evanoberholster/imagemeta => .*#replace github.com/evanoberholster/imagemeta => $B/yieldsrc#" sim/go.mod > $B/sync.mod; cp /repo/go.sum $B/sync.sum
      (cd sim && go build -modfile=$B/sync.mod -tags verif,verifyield -o $B/simworker-sync ./cmd/simworker) || { echo "MACHINERY-ERROR build (instrumented)"; exit 2; }
    fi
    W=$B/simworker-sync
  fi
  phases=$($W -info $p | python3 -c "import json,sys;print(json.load(sys.stdin)['phases'])")
  echo '{}' > $B/kv.json
  for ph in $(seq 0 $((phases-1))); do
    # a phase that starts with a fresh-process campaign (the worker exits after each of its runs) is
    # tested a second time from the campaign behind it
    for fc in "" $($W -info $p | python3 -c "
import json,sys
i=json.load(sys.stdin)
print(' '.join(c.split(':')[0] for c in i.get('resume_after_fresh',{}).get('$ph',[])))"); do
    FC=""; [ -n "$fc" ] && FC="-fromcamp $fc"
    run() { # tag procs
      GOMAXPROCS=$2 $W $FC -prop $p -tier quick -seed ${VERIF_SEED:-1} -worker 3 -workers 16 -phase $ph -kv $B/kv.json -maxruns $RUNS -rundigests $B/$p-$ph-$1.txt 3>$B/$p-$ph-$1.pipe >$B/$p-$ph-$1.out 2>$B/$p-$ph-$1.err
    }
    run a 1; run b 4; run c 16; run d 1
    for i in $(seq 1 $REPEAT); do run r$i $((1 + (i%3)*7)) & done; wait
    # phase exports for the next phase come from the first execution
    python3 - $B/$p-$ph-a.pipe $B/kv.json <<'PY'
import json,sys
kv=json.load(open(sys.argv[2]))
for l in open(sys.argv[1]):
    if l.startswith('K '):
        k,v=json.loads(l[2:]); kv[k]=v
json.dump(kv,open(sys.argv[2],'w'))
PY
    n=$(wc -l < $B/$p-$ph-a.txt)
    for t in b c d $(seq -f "r%g" 1 $REPEAT); do
      if ! cmp -s $B/$p-$ph-a.txt $B/$p-$ph-$t.txt; then
        echo "NONDETERMINISM property=$p phase=$ph execution=$t:"; diff $B/$p-$ph-a.txt $B/$p-$ph-$t.txt | head -5; bad=1
      fi
    done
    echo "$p phase $ph${fc:+ from $fc}: $n runs x $((4+REPEAT)) executions identical=$([ $bad -eq 0 ] && echo yes || echo NO)"
    done
  done
done
[ $bad -eq 0 ] && echo "determinism self-test passed" || { echo "determinism self-test FAILED"; exit 2; }
