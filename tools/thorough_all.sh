#!/bin/bash
# thorough_all.sh [seed]  — every claimed property's thorough tier, one after the other.
cd "$(dirname "$0")/.."
export VERIF_SEED=${1:-1}
./setup.sh > /dev/null
for p in C01 C02 C03 C04 C05 C06 C07 C08 C09 C10 C11 C12 C13 C14 C15 C19; do
  ./check $p --tier thorough 2>&1 | grep -v "^WARNING" | cut -c1-600 | grep -v "^  case: \|^task \|^flip " | tail -12
  echo "== $p exit=${PIPESTATUS[0]}"
done
