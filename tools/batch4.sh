#!/bin/bash
# round 4 (wave A) of independently seeded changes
cd "$(dirname "$0")/.."
M=/tmp/mut4
tools/seeded.sh $M/C01/out/2 C01-h-infe-v3 C01
tools/seeded.sh $M/C02/out/1 C02-g-iloc-extent0 C02
tools/seeded.sh $M/C02/out/2 C02-h-advancebuffer-flat C02
tools/seeded.sh $M/C04/out/1 C04-g-iloc-firstextent C04 C01
tools/seeded.sh $M/C04/out/2 C04-h-preview-zerocopy C04
tools/seeded.sh $M/C05/out/1 C05-g-preview-zerocopy C05 C04
tools/seeded.sh $M/C05/out/2 C05-h-offset-memo C05
tools/seeded.sh $M/C07/out/1 C07-g-readtagvalue-order C07 C03
tools/seeded.sh $M/C07/out/2 C07-h-cr2-le-only C07 C09
tools/seeded.sh $M/C19/out/1 C19-g-dct-alias C19 C05
tools/seeded.sh $M/C19/out/2 C19-h-ycbcr-alt-origin C19
