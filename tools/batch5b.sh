#!/bin/bash
# re-evaluation after strengthening: round 5 misses, and the seeded changes whose patches were ported onto the repaired code
cd "$(dirname "$0")/.."
M=/tmp/mut5
tools/seeded.sh $M/C03/out/1 C03-i-zone-nil-when-full C03 C04
tools/seeded.sh $M/C06/out/2 C06-j-reader-16k C06
tools/seeded.sh $M/C08/out/2 C08-j-png-tracked-pos C08
tools/seeded.sh $M/C09/out/1 C09-g-avif-first-slot C09
tools/seeded.sh $M/C09/out/2 C09-h-dngversion-unguarded C09 C06
tools/seeded.sh $M/C12/out/1 C12-g-stale-sig C12 C08
tools/seeded.sh $M/C13/out/1 C13-i-date-error-aborts C13
tools/seeded.sh $M/C13/out/2 C13-j-solo-array C13
tools/seeded.sh $M/C14/out/1 C14-i-logger-with C14
tools/seeded.sh $M/C14/out/2 C14-j-title-prepend C14
tools/seeded.sh $M/C15/out/1 C15-i-ftyp-brands-log C15
tools/seeded.sh $M/C15/out/2 C15-j-setlogger-compare C15
S=/verif/seeded
tools/seeded.sh $S/C04-a-fastread-stale-tail C04-a-fastread-stale-tail C04
tools/seeded.sh $S/C04-h-preview-zerocopy C04-h-preview-zerocopy C04
tools/seeded.sh $S/C05-g-preview-zerocopy C05-g-preview-zerocopy C05 C04
tools/seeded.sh $S/C08-a-preview-data-eof C08-a-preview-data-eof C08
tools/seeded.sh $S/C09-b-readat-eof-swallowed C09-b-readat-eof-swallowed C09
tools/seeded.sh $S/C13-e-xmp-reader C13-e-xmp-reader C04 C13
tools/seeded.sh $S/C13-h-date-by-length C13-h-date-by-length C13
tools/seeded.sh $S/C14-a-prvw-clamp C14-a-prvw-clamp C14 C01
