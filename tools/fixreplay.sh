#!/bin/bash
# fixreplay.sh <commit> <prop> <name> [sig-substring]
# Reverts a "fix:" commit in a scratch worktree, runs the quick check of <prop> against it and
# keeps the smallest replay whose signature contains <sig-substring> as
# replays/fixed/<prop>-<name>.json (the regression corpus entry of that fix).
set -u
VD=$(cd "$(dirname "$0")/.." && pwd); export VERIF_DIR=$VD
commit=$1; prop=$2; name=$3; sub=${4:-}
S=${VERIF_SCRATCH:-/var/tmp/verif-scratch}
wt=$S/wt-fr-$name; out=$S/out-fr-$name; bld=$S/build-fr-$name
mkdir -p $S; rm -rf $wt $out $bld
git -C /repo worktree add -q --detach $wt HEAD || exit 2
git -C $wt revert --no-commit $commit >/dev/null 2>&1 || { echo "$name: revert of $commit failed"; git -C /repo worktree remove --force $wt; exit 2; }
export GOFLAGS=-mod=mod GOPROXY=off GOSUMDB=off GOTOOLCHAIN=local
VERIF_REPO=$wt VERIF_OUT=$out VERIF_BUILD=$bld $VD/check $prop --tier quick > $S/log-fr-$name.txt 2>&1
rc=$?
best=$(python3 - "$out/replays" "$sub" <<'PY'
import json,glob,sys
best=None
for f in glob.glob(sys.argv[1]+'/*.json'):
    r=json.load(open(f))
    if sys.argv[2] and sys.argv[2] not in r.get('signature',''): continue
    n=sum(len(v)+sum(1 for x in v if x) for v in (r['case'].get('lanes') or {}).values() if v)
    if best is None or n<best[0]: best=(n,f)
print(best[1] if best else '')
PY
)
if [ -n "$best" ]; then cp "$best" $VD/replays/fixed/$prop-$name.json; echo "$name: exit=$rc kept $(basename $best) -> replays/fixed/$prop-$name.json ($(python3 -c "import json;print(json.load(open('$best'))['signature'])"))"; else echo "$name: exit=$rc no matching replay"; fi
git -C /repo worktree remove --force $wt; rm -rf $out $bld
