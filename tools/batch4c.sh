#!/bin/bash
# round 4 (wave B) of independently seeded changes
cd "$(dirname "$0")/.."
M=/tmp/mut4
tools/seeded.sh $M/C03/out/1 C03-g-ifd1-overwrites C03 C06
tools/seeded.sh $M/C03/out/2 C03-h-negative-zone-minutes C03
tools/seeded.sh $M/C06/out/1 C06-g-xmp-skip-overshoot C06 C10
tools/seeded.sh $M/C06/out/2 C06-h-largesize-child C06 C11
tools/seeded.sh $M/C08/out/1 C08-g-stale-peek-largesize C08
tools/seeded.sh $M/C08/out/2 C08-h-small-caller-bufio C08 C10
tools/seeded.sh $M/C10/out/1 C10-g-skip-by-seek C10
tools/seeded.sh $M/C10/out/2 C10-h-caller-bufio-pooled C10 C04
tools/seeded.sh $M/C11/out/1 C11-g-discard-by-seek C11 C08
tools/seeded.sh $M/C11/out/2 C11-h-prvw-remain C11
tools/seeded.sh $M/C13/out/1 C13-g-stale-attr-slice C13
tools/seeded.sh $M/C13/out/2 C13-h-date-by-length C13
tools/seeded.sh $M/C15/out/1 C15-g-zonecache-warn-deadlock C15 C02
tools/seeded.sh $M/C15/out/2 C15-h-logmarker-size C15
