#!/bin/bash
# round 5 of independently seeded changes
cd "$(dirname "$0")/.."
M=/tmp/mut5
tools/seeded.sh $M/C01/out/1 C01-i-ftyp-brands-clamp C01 C11
tools/seeded.sh $M/C01/out/2 C01-j-segment-length-wrap C01 C02
tools/seeded.sh $M/C02/out/1 C02-i-size-includes-marker C02
tools/seeded.sh $M/C02/out/2 C02-j-zonecache-full-lock C02
tools/seeded.sh $M/C03/out/1 C03-i-zone-nil-when-full C03 C04
tools/seeded.sh $M/C03/out/2 C03-j-fnumber-guard C03
tools/seeded.sh $M/C04/out/1 C04-i-jpegreader-pos-leak C04
tools/seeded.sh $M/C04/out/2 C04-j-alt-double-put C04 C05 C19
tools/seeded.sh $M/C05/out/1 C05-i-logger-context C05
tools/seeded.sh $M/C05/out/2 C05-j-transparent-skip C05 C04 C19
tools/seeded.sh $M/C06/out/1 C06-i-segment-length-wrap C06 C02
tools/seeded.sh $M/C06/out/2 C06-j-reader-16k C06
tools/seeded.sh $M/C07/out/1 C07-i-byteorder-field C07
tools/seeded.sh $M/C07/out/2 C07-j-offset-sanity C07
tools/seeded.sh $M/C08/out/1 C08-i-png-short-skip C08
tools/seeded.sh $M/C08/out/2 C08-j-png-tracked-pos C08
tools/seeded.sh $M/C09/out/1 C09-g-avif-first-slot C09
tools/seeded.sh $M/C09/out/2 C09-h-dngversion-unguarded C09 C06
tools/seeded.sh $M/C10/out/1 C10-i-stop-when-found C10
tools/seeded.sh $M/C10/out/2 C10-j-extxmp-double-skip C10
tools/seeded.sh $M/C11/out/1 C11-i-stale-peek-inner C11 C08
tools/seeded.sh $M/C11/out/2 C11-j-uuid-not-closed C11
tools/seeded.sh $M/C12/out/1 C12-g-stale-sig C12 C04
tools/seeded.sh $M/C12/out/2 C12-h-padding-run C12
tools/seeded.sh $M/C13/out/1 C13-i-date-error-aborts C13
tools/seeded.sh $M/C13/out/2 C13-j-solo-array C13
tools/seeded.sh $M/C14/out/1 C14-i-logger-with C14
tools/seeded.sh $M/C14/out/2 C14-j-title-prepend C14
tools/seeded.sh $M/C15/out/1 C15-i-ftyp-brands-log C15
tools/seeded.sh $M/C15/out/2 C15-j-setlogger-compare C15
tools/seeded.sh $M/C19/out/1 C19-i-nrgba-fastpath C19
tools/seeded.sh $M/C19/out/2 C19-j-quickselect-ties C19 C02
