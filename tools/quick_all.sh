#!/bin/bash
# quick_all.sh — every quick check on the tree; prints one line per property and exits non-zero if any check does.
cd "$(dirname "$0")/.."
bad=0
for p in C01 C02 C03 C04 C05 C06 C07 C08 C09 C10 C11 C12 C13 C14 C15 C19; do
  out=$(./check $p --tier quick 2>&1); rc=$?
  echo "$p exit=$rc $(echo "$out" | grep '^simctl: C' | tail -1 | cut -c1-140)"
  [ $rc -ne 0 ] && { bad=1; echo "$out" | grep "VIOLATION\|MACHINERY\|signature" | head -6 | cut -c1-200; }
done
exit $bad
