#!/bin/bash
cd "$(dirname "$0")/.."
M=/tmp/mut4
tools/seeded.sh $M/C01/out/2 C01-h-infe-v3 C01
tools/seeded.sh $M/C04/out/1 C04-g-iloc-firstextent C04 C08
tools/seeded.sh $M/C05/out/2 C05-h-offset-memo C05
tools/seeded.sh $M/C07/out/1 C07-g-readtagvalue-order C07
tools/seeded.sh $M/C07/out/2 C07-h-cr2-le-only C07 C09
tools/seeded.sh $M/C12/out/2 C12-f-seek-back C12 C08
