#!/bin/bash
# audit round: the one mutation each auditing sub-agent added
cd "$(dirname "$0")/.."
M=/tmp/mut6
tools/seeded.sh $M/C01/out/m1 C01-k-gpstime-div-zero C01
tools/seeded.sh $M/C02/out/m1 C02-k-ipma-declared-count C02
tools/seeded.sh $M/C03/out/m1 C03-k-altref-slot-value C03 C07
tools/seeded.sh $M/C04/out/m1 C04-k-isobmff-foreign-4096 C04 C05
tools/seeded.sh $M/C05/out/m1 C05-k-shared-largebox-error C05 C04
tools/seeded.sh $M/C06/out/m1 C06-k-crx-child-error-returned C06 C11
tools/seeded.sh $M/C07/out/m1 C07-k-odd-ifd-offset-bmff-endian C07 C06
tools/seeded.sh $M/C08/out/m1 C08-k-box-read-topup C08
tools/seeded.sh $M/C09/out/m1 C09-i-scan-pooled-caller-reader C09 C04
tools/seeded.sh $M/C10/out/m1 C10-k-any-appn-is-metadata C10
tools/seeded.sh $M/C11/out/m1 C11-k-cmt-by-order C11
tools/seeded.sh $M/C12/out/m1 C12-i-search-limit-8k C12
tools/seeded.sh $M/C13/out/m1 C13-k-tagname-space-only C13
tools/seeded.sh $M/C14/out/m1 C14-k-unknown-box-error-built C14
tools/seeded.sh $M/C15/out/m1 C15-k-box-log-position C15
tools/seeded.sh $M/C19/out/m1 C19-k-clamp24 C19
