#!/usr/bin/env python3
"""Regenerates the table of independently seeded changes in DESIGN.md (between the markers
<!-- seeded-table-begin --> and <!-- seeded-table-end -->) from /verif/seeded/*/meta.json."""
import json, glob, os, re, sys
vd = os.path.dirname(os.path.dirname(os.path.abspath(__file__)))
rows = ["| change | files | what it needs to manifest | detected by |", "|---|---|---|---|"]
n = und = 0
for m in sorted(glob.glob(vd + "/seeded/*/meta.json")):
    j = json.load(open(m))
    name = os.path.basename(os.path.dirname(m))
    files = ", ".join(sorted(set(os.path.basename(f) for f in j.get("files_changed", []))))
    needs = re.sub(r"\s+", " ", j.get("needs", "")).replace("|", "/")
    if len(needs) > 170:
        needs = needs[:170] + "..."
    det = ", ".join(j.get("detected_by", [])) or "**not detected**"
    n += 1
    und += 0 if j.get("detected_by") else 1
    rows.append(f"| `{name}` | {files} | {needs} | {det} |")
p = vd + "/DESIGN.md"
s = open(p).read()
a, b = "<!-- seeded-table-begin -->", "<!-- seeded-table-end -->"
if a not in s:
    sys.exit("markers missing")
s = s[: s.index(a) + len(a)] + "\n" + "\n".join(rows) + "\n" + s[s.index(b):]
open(p, "w").write(s)
print(f"{n} changes, {und} not detected")
