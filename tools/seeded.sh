#!/bin/bash
# seeded.sh <src-dir> <name> <prop> [<prop>...]
# Confirms a seeded change (patch.diff + demonstration + meta.json produced by an independent
# sub-agent) in a scratch worktree of /repo: with the patch the repository builds and its test
# suite passes and the demonstration fails; without it the demonstration passes. Then points the
# quick checks at the patched worktree (VERIF_REPO) and records which of them report a violation.
# Keeps the change under /verif/seeded/<name>/ and removes the worktree with its build output.
set -u
VD=$(cd "$(dirname "$0")/.." && pwd); export VERIF_DIR=$VD
src=$1; name=$2; shift 2
S=${VERIF_SCRATCH:-/var/tmp/verif-scratch}
wt=$S/wt-$name; out=$S/out-$name; bld=$S/build-$name
mkdir -p $S; rm -rf $wt $out $bld
export GOFLAGS=-mod=mod GOPROXY=off GOSUMDB=off GOTOOLCHAIN=local
git -C /repo worktree add -q --detach $wt HEAD || exit 2
cleanup() { git -C /repo worktree remove --force $wt 2>/dev/null; rm -rf $out $bld; }
demo_file=$(python3 -c "import json;print(json.load(open('$src/meta.json'))['demo_file'])")
demo_dir=$(python3 -c "import json;print(json.load(open('$src/meta.json'))['demo_dir'])")
demo_cmd=$(python3 -c "import json;print(json.load(open('$src/meta.json'))['demo_cmd'])")
demo_base=$(basename $demo_file)
[ -f "$src/$demo_base" ] || { echo "$name: demo file $src/$demo_base missing"; cleanup; exit 2; }
rundemo() { cp $src/$demo_base $wt/$demo_dir/$demo_base; (cd $wt && timeout 300 bash -c "$demo_cmd") > $S/demo-$name-$1.txt 2>&1; rc=$?; rm -f $wt/$demo_dir/$demo_base; return $rc; }
rundemo clean; clean_rc=$?
git -C $wt apply $src/patch.diff 2>/dev/null || git -C $wt apply --3way $src/patch.diff >/dev/null 2>&1 || { echo "$name: patch does not apply"; cleanup; exit 2; }
git -C $wt diff HEAD > $S/applied-$name.diff  # the patch as it applies to the current tree (kept as patch.diff)
(cd $wt && go build ./... && go vet ./... >/dev/null 2>&1; go test -vet=off -count=1 ./... 2>&1) > $S/tests-$name.txt; tests_rc=$?
nfail=$(grep -c "^FAIL\|^--- FAIL" $S/tests-$name.txt)
rundemo patched; patched_rc=$?
echo "$name: demo clean rc=$clean_rc (want 0), tests with patch rc=$tests_rc fails=$nfail (want 0), demo patched rc=$patched_rc (want !=0)"
ok=1
[ $clean_rc -eq 0 ] && [ $tests_rc -eq 0 ] && [ $nfail -eq 0 ] && [ $patched_rc -ne 0 ] || ok=0
detected=""
results=""
if [ $ok -eq 1 ]; then
  for p in "$@"; do
    VERIF_REPO=$wt VERIF_OUT=$out VERIF_BUILD=$bld $VD/check $p --tier ${SEEDED_TIER:-quick} > $S/log-$name-$p.txt 2>&1
    rc=$?
    sigs=$(grep "signature:" $S/log-$name-$p.txt | sed 's/^ *signature: //' | cut -d' ' -f1 | head -4 | tr '\n' ' ')
    echo "  $name $p exit=$rc $(grep -c '^VIOLATION' $S/log-$name-$p.txt) violations; $sigs"
    results="$results $p:exit=$rc"
    [ $rc -eq 1 ] && detected="$detected $p"
  done
  d=/verif/seeded/$name; mkdir -p $d
  if [ "$(cd $src && pwd)" != "$(cd $d && pwd)" ]; then cp $S/applied-$name.diff $d/patch.diff; cp $src/$demo_base $d/$demo_base; fi
  python3 - "$src/meta.json" "$d/meta.json" "$name" "$detected" "$results" "$*" <<'PY'
import json,sys,subprocess
src,dst,name,det,res,props=sys.argv[1:7]
m=json.load(open(src))
m['evaluated_at_repo_commit']=subprocess.run(['git','-C','/repo','rev-parse','--short','HEAD'],capture_output=True,text=True).stdout.strip()
m['name']=name
m['confirmed']={'demo_passes_without_patch':True,'existing_tests_pass_with_patch':True,'demo_fails_with_patch':True,
  'how':'tools/seeded.sh in a scratch worktree of /repo HEAD (removed afterwards): go build ./... && go test -vet=off -count=1 ./... with the patch; demo_cmd with and without the patch'}
m['checks_run']=res.split()
m['detected_by']=det.split()
json.dump(m,open(dst,'w'),indent=1)
PY
fi
cleanup
[ $ok -eq 1 ] || exit 3
