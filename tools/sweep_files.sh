#!/bin/bash
# sweep_files.sh <regex>  — like sweep.sh, restricted to the seeded changes whose patch touches a
# file matching <regex> (after repairs: the files the repairs touched).
cd "$(dirname "$0")/.."
bad=0; n=0
for d in seeded/*/; do
  name=$(basename $d)
  grep -E "^(\+\+\+|---) " $d/patch.diff | grep -Eq "$1" || continue
  chk=$(python3 -c "import json;m=json.load(open('$d/meta.json'));d=m.get('detected_by') or [m['property']];own=[x for x in d if x==m['property']];print((own or d)[0])")
  out=$(tools/mutant.sh sw-$name /verif/$d/patch.diff $chk 2>&1 | tail -1 | cut -c1-160)
  n=$((n+1))
  case "$out" in
    *"exit=1"*) echo "ok   $name: $out";;
    *) echo "MISS $name: $out"; bad=$((bad+1));;
  esac
done
echo "sweep: $n changes, $bad not reported"
