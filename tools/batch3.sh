#!/bin/bash
cd "$(dirname "$0")/.."
./setup.sh >/dev/null
tools/seeded.sh /tmp/mut3/C01/out/1 C01-e-isobmff-box C01 C02
tools/seeded.sh /tmp/mut3/C01/out/2 C01-f-imagetype-scan C01
tools/seeded.sh /tmp/mut3/C02/out/1 C02-e-isobmff-box C02
tools/seeded.sh /tmp/mut3/C02/out/2 C02-f-isobmff-iinf C02
tools/seeded.sh /tmp/mut3/C03/out/1 C03-e-exif2-reader C03 C06 C08
tools/seeded.sh /tmp/mut3/C03/out/2 C03-f-exif2-reader C03 C06 C08
tools/seeded.sh /tmp/mut3/C04/out/1 C04-e-exif2-tag C04
tools/seeded.sh /tmp/mut3/C04/out/2 C04-f-imagehash-imagehash C04 C19
tools/seeded.sh /tmp/mut3/C05/out/1 C05-e-imagehash-transforms-dct C05
tools/seeded.sh /tmp/mut3/C05/out/2 C05-f-exif2-buffer C05
tools/seeded.sh /tmp/mut3/C06/out/1 C06-e-exif2-reader C06 C04
tools/seeded.sh /tmp/mut3/C06/out/2 C06-f-exif2-reader C06
tools/seeded.sh /tmp/mut3/C08/out/1 C08-e-tiff-tiff C08 C12
tools/seeded.sh /tmp/mut3/C08/out/2 C08-f-imagetype-scan C08 C09
tools/seeded.sh /tmp/mut3/C10/out/1 C10-e-jpeg-jpeg C10 C04
tools/seeded.sh /tmp/mut3/C10/out/2 C10-f-jpeg-jpeg C10 C04
tools/seeded.sh /tmp/mut3/C11/out/1 C11-e-isobmff-box C11
tools/seeded.sh /tmp/mut3/C11/out/2 C11-f-isobmff-box C11
tools/seeded.sh /tmp/mut3/C13/out/1 C13-e-xmp-reader C13 C04 C05
tools/seeded.sh /tmp/mut3/C13/out/2 C13-f-xmp-reader C13
tools/seeded.sh /tmp/mut3/C14/out/1 C14-e-imagemeta C14
tools/seeded.sh /tmp/mut3/C14/out/2 C14-f-exif2-time C14 C04
tools/seeded.sh /tmp/mut3/C15/out/1 C15-e-exif2-ifds-rootIfd C15 C05
tools/seeded.sh /tmp/mut3/C15/out/2 C15-f-exif2-reader C15
