#!/bin/bash
# mutant.sh <name> <patch-file | revert:<commit>> <prop> [<prop>...]
# Applies a change to a scratch worktree of /repo (outside /repo and /verif), points the quick
# checks at it (VERIF_REPO), prints one line per check, and removes the worktree and its build
# output. Evidence and replays of these runs go to a scratch directory, never to /verif/evidence.
set -u
VD=$(cd "$(dirname "$0")/.." && pwd); export VERIF_DIR=$VD
name=$1; change=$2; shift 2
S=${VERIF_SCRATCH:-/var/tmp/verif-scratch}
wt=$S/wt-$name; out=$S/out-$name; bld=$S/build-$name
mkdir -p $S; rm -rf $wt $out $bld
git -C /repo worktree add -q --detach $wt HEAD || exit 2
if [[ $change == revert:* ]]; then
  git -C $wt revert --no-commit ${change#revert:} >/dev/null 2>&1 || { echo "$name: revert failed"; git -C /repo worktree remove --force $wt; exit 2; }
else
  git -C $wt apply $change || { echo "$name: patch failed"; git -C /repo worktree remove --force $wt; exit 2; }
fi
export GOFLAGS=-mod=mod GOPROXY=off GOSUMDB=off GOTOOLCHAIN=local
if [ -n "${MUTANT_TESTS:-}" ]; then
  (cd $wt && go build ./... && go test -vet=off -count=1 ./... 2>&1 | grep -v "^ok\|no test files" | head -5)
fi
for p in "$@"; do
  VERIF_REPO=$wt VERIF_OUT=$out VERIF_BUILD=$bld $VD/check $p --tier ${MUTANT_TIER:-quick} ${MUTANT_ARGS:-} > $S/log-$name-$p.txt 2>&1
  rc=$?
  sigs=$(grep "signature:" $S/log-$name-$p.txt | sed 's/^ *signature: //' | cut -d' ' -f1 | head -4 | tr '\n' ' ')
  echo "$name $p exit=$rc $(grep -c '^VIOLATION' $S/log-$name-$p.txt) violations; $sigs"
done
git -C /repo worktree remove --force $wt
rm -rf $out $bld
